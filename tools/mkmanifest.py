#!/venv/bin/python
"""Regenerates MANIFEST.json from the table below (kept valid at all times)."""
import json
import os

HERE = os.path.dirname(os.path.dirname(os.path.abspath(__file__)))

# id -> (category, technique, level text, level note, design ref)
CHECKS = {
    "C01": ("exploration",
            "Hypothesis grammar-based program generation + reference-interpreter differential oracle",
            "Generated well-typed scalar-core programs x inputs are compiled, run on the VM and compared with an "
            "independent AST interpreter written from the statement (value and final globals); divergence is decided "
            "by step counting. Exploration only: absence of violations holds for the generated region.",
            "Trusted: vf/interp.py (C-like semantics of the statement), vf/model.py printer; inputs outside the stated "
            "numeric domain are discarded and counted.", "4/C01"),
    "C19": ("exploration",
            "exhaustive boundary enumeration + Hypothesis random values, round trip through an independent LEB128/wasm decoder",
            "Every value around every 7-bit group / sign boundary plus random u32/s32 values is packed by the writer and "
            "decoded by a spec decoder; modules built through the writer API are strictly decoded (names, sizes, indices).",
            "Trusted: vf/wasmref.py decoder (cross-checked against wasmtime on every module).", "4/C19"),
}

PENDING = {}


def main():
    props = [json.loads(l) for l in open(os.path.join(HERE, "properties.jsonl"))]
    checks = []
    na = []
    for p in props:
        pid = p["id"]
        if pid in CHECKS:
            cat, tech, text, note, ref = CHECKS[pid]
            checks.append({
                "property_id": pid,
                "quick_cmd": "./check %s quick" % pid,
                "thorough_cmd": "./check %s thorough" % pid,
                "evidence_file": "evidence/%s.json" % pid,
                "replay_cmd_template": "./check %s --replay {path}" % pid,
                "engine": "vf",
                "level_claimed": {"category": cat, "text": text, "design_ref": "DESIGN.md section " + ref},
                "level_note": note,
                "technique": tech,
            })
        else:
            na.append({"property_id": pid,
                       "reason": PENDING.get(pid, "check not yet registered: the property-based check for this property "
                                                  "is designed (DESIGN.md section 4) but not built/validated yet; "
                                                  "nothing is claimed for it")})
    m = {
        "version": 1,
        "setup_cmd": "./setup.sh",
        "hooks": {
            "guard": "ANTERU_NSL_VERIF",
            "enable": "no instrumentation hooks are needed: every observation point is public API; the guard name is reserved",
            "baseline_off_cmd": "cd /repo && /venv/bin/python -m pytest -ra -q -p no:cacheprovider --timeout=900 --continue-on-collection-errors",
            "source_commits": [],
            "add_only": True,
        },
        "engines": [{"name": "vf", "path": "vf/", "serves_properties": sorted(CHECKS),
                     "kind_free_text": "Hypothesis-driven generators, exhaustive enumerators, reference interpreter, "
                                       "independent wasm decoder/validator; 16-process sharding (vf/runner.py)"}],
        "checks": checks,
        "not_applicable": na,
        "notes": "All checks: ./check <ID> quick|thorough; VERIF_SEED selects the Hypothesis seed; exit 0 held / 1 VIOLATION / 2 harness error. "
                 "known_findings.json lists recorded genuine defects (KNOWN-FINDING lines) and fixed ones.",
    }
    with open(os.path.join(HERE, "MANIFEST.json"), "w") as fh:
        json.dump(m, fh, indent=1)
    try:
        import jsonschema
        jsonschema.validate(m, json.load(open("/root/.vp/MANIFEST.schema.json")))
        print("MANIFEST.json valid; claimed:", len(checks), "not claimed:", len(na))
    except ImportError:
        print("MANIFEST.json written (jsonschema not available to validate)")


if __name__ == "__main__":
    main()
