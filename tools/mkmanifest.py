#!/venv/bin/python
"""Regenerates MANIFEST.json from the table below (kept valid at all times)."""
import json
import os

HERE = os.path.dirname(os.path.dirname(os.path.abspath(__file__)))

# id -> (category, technique, level text, level note, design ref)
CHECKS = {
    "C01": ("exploration",
            "Hypothesis grammar-based program generation + reference-interpreter differential oracle",
            "Generated well-typed scalar-core programs x inputs are compiled, run on the VM and compared with an "
            "independent AST interpreter written from the statement (value and final globals); divergence is decided "
            "by step counting. Exploration only: absence of violations holds for the generated region.",
            "Trusted: vf/interp.py (C-like semantics of the statement), vf/model.py printer; inputs outside the stated "
            "numeric domain are discarded and counted.", "4/C01"),
    "C19": ("exploration",
            "exhaustive boundary enumeration + Hypothesis random values, round trip through an independent LEB128/wasm decoder",
            "Every value around every 7-bit group / sign boundary plus random u32/s32 values is packed by the writer and "
            "decoded by a spec decoder; modules built through the writer API are strictly decoded (names, sizes, indices).",
            "Trusted: vf/wasmref.py decoder (cross-checked against wasmtime on every module).", "4/C19"),
    "C08": ("exploration",
            "exhaustive enumeration of operator pairs/triples x parenthesisations x contexts x layouts + Hypothesis long chains; "
            "tree-shape oracle (independent precedence-climbing parser) and value oracle (separating inputs on the VM)",
            "All 169 pairs and 2197 triples are enumerated with every parenthesisation, seven embedding contexts and four "
            "token-preserving layouts; the parser's tree is compared with an independent parser built from the statement's "
            "levels, and separating operand values are executed on the VM. Longer chains are sampled.",
            "Trusted: vf/exprparse.py (levels of the statement), vf/model.tokenize (layouts keep the token sequence).", "4/C08"),
    "C09": ("exploration",
            "exhaustive enumeration of (operator, left type, right type) against a transcription of the typing rules",
            "The complete internal type universe (51 597 triples) at the typing interface and all 2 548 spellable triples end "
            "to end (accept/reject, IR result type, selected overload) are compared with vf.model.binop_type.",
            "Trusted: vf.model.binop_type transcribes the statement; points the statement leaves open are excluded and counted.", "4/C09"),
    "C10": ("exploration",
            "exhaustive enumeration of overload sets x declaration orders x argument lists against a model of the resolution rule; "
            "Hypothesis-sampled end-to-end programs",
            "Every set of up to three signatures (quick: all singletons/pairs, a quarter of the triples) in every declaration "
            "order against every argument list at Scope.FindFunction; compiled programs whose overloads return distinct constants.",
            "Trusted: resolve() in vf/checks/c10.py (viability, conversion count, unique minimum).", "4/C10"),
    "C11": ("exploration",
            "exhaustive enumeration of nesting paths x flow statement x sibling context + Hypothesis statement trees; "
            "scope-model accept/reject oracle and reference-interpreter differential for accepted programs",
            "Every nesting path up to depth 3 (thorough 5) over seven constructs, with break/continue, six sibling contexts and "
            "braced/unbraced bodies: accept/reject must equal 'has an enclosing loop'; accepted programs run on the VM against the "
            "reference interpreter with per-loop counters (innermost-loop binding).",
            "Trusted: vf/interp.py loop semantics; rejection = front-end failure.", "4/C11"),
    "C12": ("exploration",
            "exhaustive enumeration of block structures x insertion positions x names against a lexical-scope model; "
            "Hypothesis programs with sibling-scope name reuse run against the reference interpreter",
            "Small block structures with one extra declaration or use at every position with every name of the program: "
            "accept/reject must equal the scope model; generated programs reusing names in sibling scopes are executed.",
            "Trusted: vf/scopemodel.py; unbraced then/else declaration pairs are not generated (statement silent).", "4/C12"),
    "C13": ("exploration",
            "exhaustive grids (array shapes x dimensions x constant values x spellings; vector/matrix indices; index expression types; "
            "swizzle masks) against accept/reject rules transcribed from the statement",
            "All 84 array shapes, every dimension and chain depth, constants from -2 to size+1; vector/matrix indices; 20 index "
            "expression kinds x 6 targets; all masks of length 1-3 (thorough: 4) over an alphabet with foreign letters.",
            "Trusted: the accept/reject transcription in vf/checks/c13.py; accept = front end lets the program through.", "4/C13"),
    "C18": ("exploration",
            "Hypothesis-generated compilation histories with a metamorphic oracle (same source + options => same listing / wasm bytes) "
            "against a never-compiled reference process; child processes under different PYTHONHASHSEED values",
            "A target is compiled in a fork of a process that never compiled anything, and again in a worker after a generated "
            "history of accepted and rejected compilations (including identifier-role clashes and same-named structs), and in "
            "child processes with hash seeds 0/1/4242/random; listings, tables and wasm bytes must be identical.",
            "Trusted: vf/pristine.py (reference process), LinearIR.InstructionPrinter as the listing.", "4/C18"),
    "C20": ("exploration",
            "exhaustive enumeration of small texts x offsets + Hypothesis texts; generated programs under generated layouts with "
            "printer-recorded token ranges as the oracle; redeclaration diagnostics read back",
            "SourceMapping is checked on every text of length <= 10 over {x, newline} and random texts at every offset; for "
            "generated programs under random layouts every reported identifier / literal / declaration range must be exactly a "
            "recorded token range, hull ranges must contain their children and round-trip through the printed form.",
            "Trusted: vf/model.py printer bookkeeping (asserted against the text), the 1-based end-exclusive convention.", "4/C20"),
    "C17": ("exploration",
            "Hypothesis-generated programs, store/load round trip (pickle as nslc.py does, real nslc.py command line, same and "
            "fresh process) with a differential oracle against the in-memory module",
            "Accepted programs at both optimisation settings are stored and reloaded in the same process, in a fresh child process "
            "and through the nslc.py command line; listing, global table and VM behaviour on generated inputs must be identical.",
            "Trusted: the in-memory module is the reference; VM failures are compared by exception class.", "4/C17"),
    "C03": ("exploration",
            "Hypothesis call-graph generation (parameter-modifying callees, nesting, recursion, overloads) + reference-interpreter "
            "differential oracle with explicit frames",
            "Generated multi-function programs whose callees modify their scalar/vector/matrix parameters and whose callers re-read "
            "their own parameters afterwards are run on the VM and compared with the reference interpreter (value, globals, "
            "untouched host argument objects).", "Trusted: vf/interp.py call semantics (copy-in, fresh frame).", "4/C03"),
    "C04": ("exploration",
            "exhaustive enumeration of swizzle masks and element indices + Hypothesis vector/matrix programs; reference-interpreter "
            "differential oracle",
            "All 1 960 read masks, 332 write masks and every constant/dynamic index on vectors and matrices, plus generated "
            "programs over constructors, component-wise operators, matrix products, nested element writes and copies, compared "
            "with the reference interpreter's functional value semantics.",
            "Trusted: vf/interp.py vector/matrix semantics; integer component division only compared where exact.", "4/C04"),
    "C02": ("exploration",
            "Hypothesis programs from the union of all generators + a store/load-dense shape generator; differential oracle "
            "optimize=False vs optimize=True (accept/reject, value, globals)",
            "Every generated program is compiled at both optimisation settings; accept/reject must agree and, on every input the "
            "unoptimised module handles, the optimised module must return exactly the same value and leave the same globals.",
            "Trusted: the unoptimised module is the reference; wall-clock guards only ever discard.", "4/C02"),
    "C14": ("exploration",
            "Hypothesis programs from all generators at both optimisation settings; static IR well-formedness checker "
            "(unique references, operand liveness, must-be-defined dataflow over all paths, branch targets, call targets)",
            "Every compiled module is checked by an independent IR checker that reads operands through the public accessors and "
            "runs a forward must-be-defined analysis over the instruction-level CFG the VM executes.",
            "Trusted: vf/irwf.py CFG construction mirrors VM.__Execute; operands are resolved by reference number.", "4/C14"),
    "C15": ("exploration",
            "Hypothesis stateful testing (RuleBasedStateMachine: NewVM / SetGlobal / Invoke / GetGlobal) against a reference state "
            "machine driven by the reference interpreter",
            "Generated histories of host operations on up to three VMs of one linked program are executed step by step on the real "
            "VMs and on a model (one globals map per VM, invocations by the reference interpreter); every global of every VM and "
            "every returned value is compared after every step; failing histories shrink as one value.",
            "Trusted: vf/interp.py; invocations leaving the numeric domain are skipped and counted.", "4/C15"),
    "C05": ("exploration",
            "Hypothesis loosely typed whole-language program generation (plus the well-typed generators) with a validity predicate on "
            "the outcome; exception bucketing by (stage, type, innermost function, opcode); search continues past listed known findings",
            "Programs over the whole spellable language are compiled at both optimisation settings; once the front end accepts, "
            "lowering, IR passes, linking and VM execution on type-correct inputs may only succeed or fail with the two defined "
            "run-time errors; everything else is a violation bucketed by signature.",
            "Trusted: stage attribution from tracebacks (vf/adapter.py); allowances derived from the program text (vf/checks/c05.analyse).", "4/C05"),
    "C16": ("exploration",
            "Hypothesis partitions of call-graph programs into import DAGs; differential oracle against the single-module compile, "
            "counting loader, exhaustive add orders per subset, duplicate-definition probes",
            "Generated multi-module programs are compiled separately, stored with pickle and linked from the root only and from every "
            "subset in every order; results must equal the single-module program, no module may be loaded twice, the outcome may "
            "not depend on the order, duplicate definitions must be rejected.",
            "Trusted: the single-module compile as reference; modules use only their own globals.", "4/C16"),
    "C06": ("exploration",
            "Hypothesis in-subset and near-miss program generation; differential execution wasmtime vs the VM; refusal accounting",
            "Generated straight-line scalar programs (and programs with exactly one construct outside the subset) are compiled to "
            "WebAssembly; emitted modules are validated, instantiated in wasmtime and every export is called on generated "
            "arguments; results must equal the VM's (ints exactly, floats to f32); in-subset programs must not be refused.",
            "Trusted: wasmtime as the conforming engine; the VM as value reference; vf/interp.py to discard inputs leaving 32 bit.", "4/C06"),
    "C07": ("exploration",
            "Hypothesis program generation + a Hypothesis model of the writer API; independent binary decoder / validator "
            "cross-checked with wasmtime",
            "Every module the compiler emits for generated programs, and modules built directly through the nsl.WebAssembly API "
            "with mixed-type local groups, is decoded strictly and validated (section framing, index spaces, body typing).",
            "Trusted: vf/wasmref.py (any disagreement with wasmtime is a harness error, exit 2).", "4/C07"),
}

PENDING = {}


def main():
    props = [json.loads(l) for l in open(os.path.join(HERE, "properties.jsonl"))]
    checks = []
    na = []
    for p in props:
        pid = p["id"]
        if pid in CHECKS:
            cat, tech, text, note, ref = CHECKS[pid]
            checks.append({
                "property_id": pid,
                "quick_cmd": "./check %s quick" % pid,
                "thorough_cmd": "./check %s thorough" % pid,
                "evidence_file": "evidence/%s.json" % pid,
                "replay_cmd_template": "./check %s --replay {path}" % pid,
                "engine": "vf",
                "level_claimed": {"category": cat, "text": text, "design_ref": "DESIGN.md section " + ref},
                "level_note": note,
                "technique": tech,
            })
        else:
            na.append({"property_id": pid,
                       "reason": PENDING.get(pid, "check not yet registered: the property-based check for this property "
                                                  "is designed (DESIGN.md section 4) but not built/validated yet; "
                                                  "nothing is claimed for it")})
    m = {
        "version": 1,
        "setup_cmd": "./setup.sh",
        "hooks": {
            "guard": "ANTERU_NSL_VERIF",
            "enable": "no instrumentation hooks are needed: every observation point is public API; the guard name is reserved",
            "baseline_off_cmd": "cd /repo && /venv/bin/python -m pytest -ra -q -p no:cacheprovider --timeout=900 --continue-on-collection-errors",
            "source_commits": [],
            "add_only": True,
        },
        "engines": [{"name": "vf", "path": "vf/", "serves_properties": sorted(CHECKS),
                     "kind_free_text": "Hypothesis-driven generators, exhaustive enumerators, reference interpreter, "
                                       "independent wasm decoder/validator; 16-process sharding (vf/runner.py)"}],
        "checks": checks,
        "not_applicable": na,
        "notes": "All checks: ./check <ID> quick|thorough; VERIF_SEED selects the Hypothesis seed; exit 0 held / 1 VIOLATION / 2 harness error. "
                 "known_findings.json lists recorded genuine defects (KNOWN-FINDING lines) and fixed ones.",
    }
    with open(os.path.join(HERE, "MANIFEST.json"), "w") as fh:
        json.dump(m, fh, indent=1)
    try:
        import jsonschema
        jsonschema.validate(m, json.load(open("/root/.vp/MANIFEST.schema.json")))
        print("MANIFEST.json valid; claimed:", len(checks), "not claimed:", len(na))
    except ImportError:
        print("MANIFEST.json written (jsonschema not available to validate)")


if __name__ == "__main__":
    main()
