#!/venv/bin/python
"""SENSITIVITY.tsv (written by tools/sensitivity.sh) -> SENSITIVITY.md"""
import json
import os

HERE = os.path.dirname(os.path.dirname(os.path.abspath(__file__)))
rows = []
for line in open(os.path.join(HERE, "SENSITIVITY.tsv")):
    parts = line.rstrip("\n").split("\t")
    if len(parts) >= 3:
        rows.append(parts + [""] * (4 - len(parts)))
rows.sort()
out = ["# Sensitivity of the checks to independently seeded changes", "",
       "Each row: a change written by a sub-agent that was given only the text of one property and a scratch worktree "
       "(see `seeded/<id>/meta.json`, `notes.md`), re-confirmed by `tools/verify_seed.sh` (82 tests pass with it, its "
       "demo fails with it and passes without it). `tools/sensitivity.sh` applies the patch to a scratch copy of `/repo` "
       "and runs the *quick* check of the targeted property (`VERIF_SEED=0`) with `NSL_REPO` pointing at the copy. "
       "exit 1 = caught (the signature of the first violation is shown), exit 0 = missed. Each row is the latest run of that "
       "seed; rows are refreshed round by round (a full refresh of all 240 takes several hours), so older rows were produced by "
       "earlier versions of the checks. The first replay of every caught seed is kept under `regressions/` and re-executed at "
       "the start of the corresponding part of every later run.", "",
       "| seed | property | what it needs in order to manifest | quick check | first violation signature |",
       "|---|---|---|---|---|"]
caught = 0
elsewhere = 0
for sid, prop, code, sig in rows:
    meta_p = os.path.join(HERE, "seeded", sid, "meta.json")
    need = ""
    if os.path.exists(meta_p):
        need = json.load(open(meta_p)).get("summary") or ""
    if not need:
        notes = os.path.join(HERE, "seeded", sid, "notes.md")
        if os.path.exists(notes):
            txt = [l.strip() for l in open(notes) if l.strip() and not l.startswith("#")]
            need = " ".join(txt)[:220]
    need = need.replace("|", "/").replace("\n", " ")
    verdict = {"1": "caught", "0": "MISSED", "2": "harness error", "neutralised": "n/a (neutralised)"}.get(code, code)
    if code == "0" and os.path.exists(meta_p):
        mm = json.load(open(meta_p))
        other = mm.get("caught_by_other") or (("neutralised: " + mm.get("neutralised_by", "")[:120]) if mm.get("status") == "neutralised" else None)
        if other:
            verdict = "not by %s; %s" % (prop, other)
            elsewhere += 1
    caught += code == "1"
    out.append("| %s | %s | %s | %s | `%s` |" % (sid, prop, need, verdict, sig))
out += ["", "%d of %d seeded changes are caught by the quick tier of the check of the property they target; %d more are accounted for "
        "in the table (caught by the check of another property, or neutralised by a later fix)." % (caught, len(rows), elsewhere), ""]
open(os.path.join(HERE, "SENSITIVITY.md"), "w").write("\n".join(out))
print("SENSITIVITY.md: %d/%d caught, %d accounted for otherwise" % (caught, len(rows), elsewhere))
