#!/venv/bin/python
"""Byte-preserving replace in a /repo file: old/new given with LF, converted to
the file's line ending.  usage: repo_edit.py <file> <oldfile> <newfile>"""
import sys


def edit(path, old, new, count=1):
    data = open(path, "rb").read()
    crlf = b"\r\n" in data
    o = old.encode()
    n = new.encode()
    if crlf:
        o = o.replace(b"\n", b"\r\n")
        n = n.replace(b"\n", b"\r\n")
    assert data.count(o) == count, "pattern occurs %d times in %s" % (data.count(o), path)
    open(path, "wb").write(data.replace(o, n))


if __name__ == "__main__":
    edit(sys.argv[1], open(sys.argv[2]).read(), open(sys.argv[3]).read())
