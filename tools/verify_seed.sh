#!/bin/bash
# usage: tools/verify_seed.sh <prop> <mN> [<srcdir>]  - confirm a seeded change independently, then keep it in seeded/
# Confirms in a scratch copy of /repo: patch applies, 82 tests pass with it, demo fails with it and passes without it.
set -u
prop="$1"; m="$2"; src="${3:-/tmp/seed_out/$prop/$m}"
here="$(cd "$(dirname "$0")/.." && pwd)"
scratch="$(mktemp -d /tmp/vs.XXXXXX)"
trap 'rm -rf "$scratch"' EXIT
rsync -a --exclude .git --exclude __pycache__ /repo/ "$scratch/repo/"
cd "$scratch/repo" && git init -q . >/dev/null
/venv/bin/python "$src/demo.py" > "$scratch/demo_clean.log" 2>&1; clean=$?
git apply --whitespace=nowarn "$src/patch.diff" || { echo "$prop $m PATCH-DOES-NOT-APPLY"; exit 3; }
tests=$(/venv/bin/python -m pytest -q -p no:cacheprovider 2>&1 | tail -1)
/venv/bin/python "$src/demo.py" > "$scratch/demo_patched.log" 2>&1; patched=$?
echo "$prop $m: demo clean exit=$clean, patched exit=$patched, tests: $tests"
if [ "$clean" = 0 ] && [ "$patched" != 0 ] && echo "$tests" | grep -q "82 passed"; then
  dst="$here/seeded/$prop-$m"
  mkdir -p "$dst"
  cp "$src/patch.diff" "$src/demo.py" "$dst/"
  [ -f "$src/notes.md" ] && cp "$src/notes.md" "$dst/"
  /venv/bin/python - "$prop" "$m" "$dst" "$tests" <<'PY'
import json, sys, os
prop, m, dst, tests = sys.argv[1:5]
notes = open(os.path.join(dst, "notes.md")).read() if os.path.exists(os.path.join(dst, "notes.md")) else ""
meta_path = os.path.join(dst, "meta.json")
meta = json.load(open(meta_path)) if os.path.exists(meta_path) else {}
meta.update({
    "id": "%s-%s" % (prop, m), "breaks_property": prop,
    "needs_to_manifest": meta.get("needs_to_manifest", notes[:1500]),
    "confirmed": {"how": "tools/verify_seed.sh: scratch copy of /repo HEAD, demo.py on the clean copy (exit 0), git apply patch.diff, "
                         "pytest (all pass), demo.py again (exit != 0)", "tests_with_patch": tests,
                  "demo_clean_exit": 0, "demo_patched_exit": "nonzero"},
    "origin": "independent sub-agent given only the property text and a scratch worktree",
})
json.dump(meta, open(meta_path, "w"), indent=1)
PY
  echo "  kept as seeded/$prop-$m"
else
  echo "  NOT CONFIRMED"; tail -5 "$scratch/demo_clean.log" "$scratch/demo_patched.log"
fi
