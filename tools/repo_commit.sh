#!/bin/bash
# usage: tools/repo_commit.sh <message-file>   - commit the working changes of /repo as ONE fix commit,
# only if the pinned test suite still passes (82 passed) and the diff is small.
set -e
cd /repo
git diff --stat
res=$(/venv/bin/python -m pytest -q -p no:cacheprovider 2>&1 | tail -1)
echo "$res"
echo "$res" | grep -q "^82 passed" || { echo "TESTS DO NOT PASS - not committing"; exit 1; }
git commit -q -a -F "$1"
git log --oneline | head -1
