#!/bin/bash
# usage: tools/sensitivity.sh [seed-id ...]   (default: every directory under seeded/)
# Runs, for each seeded change, the quick check of the property it targets against a scratch copy of /repo
# with the change applied (never /repo itself) and appends "id property exit signature" to SENSITIVITY.tsv.
here="$(cd "$(dirname "$0")/.." && pwd)"
cd "$here"
out="${OUT:-$here/SENSITIVITY.tsv}"
ids=("$@")
if [ ${#ids[@]} -eq 0 ]; then ids=($(ls seeded)); fi
for id in "${ids[@]}"; do
  prop="${id%%-*}"
  res=$(SHOW=2 KEEPTAG="seed-$id" tools/mutant_run.sh "seeded/$id/patch.diff" "$prop" 2>&1 | grep -v WARNING)
  code=$(echo "$res" | grep -o "exit=[0-9]*" | head -1 | cut -d= -f2)
  sig=$(echo "$res" | grep '"signature"' | head -1 | sed 's/.*"signature": "\(.*\)",*/\1/' | cut -c1-90)
  grep -v "^$id	" "$out" > "$out.tmp" 2>/dev/null; mv -f "$out.tmp" "$out" 2>/dev/null
  printf "%s\t%s\t%s\t%s\n" "$id" "$prop" "${code:-?}" "$sig" >> "$out"
  echo "$id $prop exit=${code:-?} $sig"
done
