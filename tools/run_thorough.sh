#!/bin/bash
# Runs every thorough check once, sequentially; prints one summary line per check.
cd "$(dirname "$0")/.."
for id in ${@:-C01 C02 C03 C04 C05 C06 C07 C08 C09 C10 C11 C12 C13 C14 C15 C16 C17 C18 C19 C20}; do
  s=$(date +%s)
  out=$(VERIF_EVIDENCE_DIR=${VERIF_EVIDENCE_DIR:-/tmp/thorough_ev} VERIF_REPLAY_DIR=${VERIF_REPLAY_DIR:-/tmp/thorough_replays} ./check $id thorough 2>&1)
  code=$?
  echo "$id exit=$code $(( $(date +%s) - s ))s $(echo "$out" | grep -E "^C[0-9]+ thorough" | cut -c1-140)"
  [ $code != 0 ] && echo "$out" | grep -E "VIOLATION|HARNESS" | head -8
done
exit 0
