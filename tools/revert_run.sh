#!/bin/bash
# usage: tools/revert_run.sh [<commit> ...]   (default: every fixed entry of known_findings.json)
# For each repaired defect: clone /repo to a scratch directory, revert the fix commit there (skipped if it does
# not revert cleanly because later fixes touch the same lines), run the quick check of the property the entry
# names against the clone, and append "commit property exit signature" to REVERTS.tsv.
here="$(cd "$(dirname "$0")/.." && pwd)"
cd "$here"
out="${OUT:-$here/REVERTS.tsv}"
pairs=$(/venv/bin/python - "$@" <<'PY'
import json, sys
k = json.load(open("known_findings.json"))["findings"]
want = set(sys.argv[1:])
seen = set()
for f in k:
    if f.get("status") == "fixed" and (not want or f["commit"] in want) and (f["commit"], f["property"]) not in seen:
        seen.add((f["commit"], f["property"]))
        print(f["commit"], f["property"])
PY
)
echo "$pairs" | while read commit prop; do
  [ -z "$commit" ] && continue
  scratch="$(mktemp -d /tmp/rev.XXXXXX)"
  git clone -q /repo "$scratch/repo"
  if ! git -C "$scratch/repo" -c user.email=x@x -c user.name=x revert --no-commit "$commit" >/dev/null 2>&1; then
    printf "%s\t%s\t%s\t%s\n" "$commit" "$prop" "skip" "does not revert cleanly" >> "$out"
    echo "$commit $prop skip (conflict)"
    rm -rf "$scratch"; continue
  fi
  log="$scratch/log"
  ( NSL_REPO="$scratch/repo" VERIF_EVIDENCE_DIR="$scratch/ev" VERIF_REPLAY_DIR="$scratch/replays" ./check "$prop" quick > "$log" 2>&1 ); code=$?
  sig=$(grep -h '"signature"' "$scratch"/replays/*.json 2>/dev/null | head -1 | sed 's/.*"signature": "\(.*\)",*/\1/' | cut -c1-90)
  if [ -n "${KEEP:-}" ] && [ "$code" = 1 ]; then   # keep the first replay as a regression case
    mkdir -p "$KEEP"
    for f in "$scratch"/replays/*.json; do
      b="$(basename "$f" .json)"; cp "$f" "$KEEP/${b%-*}-fix-$commit.json"; break
    done
  fi
  grep -v "^$commit	$prop	" "$out" > "$out.tmp" 2>/dev/null; mv -f "$out.tmp" "$out" 2>/dev/null
  printf "%s\t%s\t%s\t%s\n" "$commit" "$prop" "$code" "$sig" >> "$out"
  echo "$commit $prop exit=$code $sig"
  rm -rf "$scratch"
done
