#!/bin/bash
# Re-confirm every kept seed against the CURRENT /repo: patch applies, tests pass with it, demo passes clean and fails patched.
here="$(cd "$(dirname "$0")/.." && pwd)"
for d in "$here"/seeded/*/; do
  id=$(basename "$d")
  scratch="$(mktemp -d /tmp/rv.XXXXXX)"
  rsync -a --exclude .git --exclude __pycache__ /repo/ "$scratch/repo/"
  cd "$scratch/repo" && git init -q . >/dev/null
  /venv/bin/python "$d/demo.py" > /dev/null 2>&1; clean=$?
  if ! git apply --whitespace=nowarn "$d/patch.diff" 2>/dev/null; then echo "$id PATCH-DOES-NOT-APPLY"; cd /; rm -rf "$scratch"; continue; fi
  tests=$(/venv/bin/python -m pytest -q -p no:cacheprovider 2>&1 | tail -1)
  /venv/bin/python "$d/demo.py" > /dev/null 2>&1; patched=$?
  ok="OK"; { [ "$clean" = 0 ] && [ "$patched" != 0 ] && echo "$tests" | grep -q "82 passed"; } || ok="STALE"
  echo "$id $ok clean=$clean patched=$patched $tests"
  cd /; rm -rf "$scratch"
done
