#!/bin/bash
# usage: tools/mutant_run.sh <patch.diff> <ID> [<ID>...]   (env TIER=quick|thorough, VERIF_SEED)
# Applies the patch to a scratch copy of /repo (never to /repo), runs the checks
# against it with NSL_REPO, prints "<ID> exit=<code>", removes the copy.
set -u
patch="$(readlink -f "$1")"; shift
here="$(cd "$(dirname "$0")/.." && pwd)"
scratch="$(mktemp -d /tmp/mut.XXXXXX)"
trap 'rm -rf "$scratch"' EXIT
rsync -a --exclude .git --exclude __pycache__ /repo/ "$scratch/repo/"
( cd "$scratch/repo" && git init -q . && git apply --whitespace=nowarn "$patch" ) || { echo "PATCH-FAILED $patch"; exit 3; }
for id in "$@"; do
  out="$scratch/$id.log"
  ( cd "$here" && NSL_REPO="$scratch/repo" VERIF_EVIDENCE_DIR="$scratch/ev" VERIF_REPLAY_DIR="$scratch/replays" ./check "$id" "${TIER:-quick}" > "$out" 2>&1 )
  code=$?
  echo "$id exit=$code $(grep -c '^VIOLATION' "$out") violation line(s)"
  grep -h -A3 '"signature"' "$scratch"/replays/*.json 2>/dev/null | grep -E '"signature"|"detail"' | cut -c1-300 | head -${SHOW:-6}
  [ "$code" = 2 ] && tail -5 "$out"
  if [ -n "${KEEP:-}" ] && [ "$code" = 1 ]; then   # keep the first replay as a regression case: KEEP=<dir> KEEPTAG=<tag>
    mkdir -p "$KEEP"
    for f in "$scratch"/replays/*.json; do
      b="$(basename "$f" .json)"; cp "$f" "$KEEP/${b%-*}-${KEEPTAG:-mutant}.json"; break
    done
  fi
  rm -rf "$scratch/replays"
done
