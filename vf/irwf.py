"""IR well-formedness checker for C14 (see DESIGN.md 3.5).  Operands are read
through the public accessors of each instruction class - deliberately not via
Uses / ReplaceUses, which are the mechanism under test."""


def operands(ins):
    """-> list of (role, operand) ; block targets are not operands"""
    from nsl import LinearIR as L
    out = []
    if isinstance(ins, (L.BinaryInstruction,)):
        for k, v in enumerate(ins.Values):
            out.append(("value%d" % k, v))
    elif isinstance(ins, L.BranchInstruction):
        if ins.Predicate is not None:
            out.append(("predicate", ins.Predicate))
    elif isinstance(ins, L.UnaryInstruction):
        out.append(("value", ins.Value))
    elif isinstance(ins, L.ReturnInstruction):
        if ins.Value is not None:
            out.append(("value", ins.Value))
    elif isinstance(ins, L.ConstructPrimitiveInstruction):
        for k, v in enumerate(ins.Values):
            out.append(("item%d" % k, v))
    elif isinstance(ins, L.MemberAccessInstruction):
        out.append(("variable", ins.Variable))
        if ins.Store is not None:
            out.append(("store", ins.Store))
    elif isinstance(ins, L.ShuffleInstruction):
        out.append(("first", ins.First))
        out.append(("second", ins.Second))
    elif isinstance(ins, L.VariableAccessInstruction):
        if ins.Store is not None:
            out.append(("store", ins.Store))
    elif isinstance(ins, L.CallInstruction):
        for k, v in enumerate(ins.Arguments):
            out.append(("argument%d" % k, v))
    elif isinstance(ins, L._IndexedAccessBase):
        out.append(("array", ins.Array))
        out.append(("index", ins.Index))
        if ins.Store is not None:
            out.append(("store", ins.Store))
    elif isinstance(ins, L.DeclareVariableInstruction):
        pass
    else:
        # reflective fallback for instruction classes this checker does not know
        for name in ("Values", "Value", "Predicate", "Variable", "Store", "First", "Second", "Arguments", "Array", "Index"):
            if hasattr(ins, name):
                v = getattr(ins, name)
                if isinstance(v, (list, tuple)):
                    out.extend(("%s%d" % (name, k), x) for k, x in enumerate(v))
                elif v is not None and not isinstance(v, (str, int)):
                    out.append((name, v))
    return out


def defines_value(ins):
    from nsl import LinearIR as L
    oc = ins.OpCode
    return oc not in (L.OpCode.STORE, L.OpCode.STORE_ARRAY, L.OpCode.STORE_MEMBER, L.OpCode.BRANCH, L.OpCode.RETURN)


def check_function(fn, program_functions=None):
    """-> list of (kind, message).  Empty list = well-formed."""
    from nsl import LinearIR as L
    problems = []
    blocks = list(fn.BasicBlocks)
    block_ids = {id(b) for b in blocks}
    flat = []
    offset = {}
    for b in blocks:
        offset[id(b)] = len(flat)
        flat.extend(b.Instructions)
    constants = list(fn.Constants)
    const_refs = {c.Reference: c for c in constants}
    ins_ids = {id(i): k for k, i in enumerate(flat)}
    # A replaced instruction keeps the reference of the one it replaces (WithVariable, Replace), and
    # users may still hold the exchanged object: an operand denotes "the result of instruction %r",
    # so operands are resolved by reference number, exactly as the VM and the printer read them.
    live = {i.Reference: i for i in flat}

    # 1. unique references
    seen = {}
    for what, objs in (("block", blocks), ("constant", constants), ("instruction", flat)):
        for o in objs:
            r = getattr(o, "Reference", None)
            if not isinstance(r, int) or r < 0:
                problems.append(("bad-reference", "%s %r has reference %r" % (what, type(o).__name__, r)))
                continue
            if r in seen and seen[r] is not o:
                problems.append(("duplicate-reference", "reference %%%d is carried by a %s and by %s" % (
                    r, what, type(seen[r]).__name__)))
            seen[r] = o
    # an instruction object must not sit in two places
    if len(ins_ids) != len(flat):
        problems.append(("instruction-listed-twice", "the same instruction object occurs twice in the function"))

    # 2. operands
    uses = []  # (position, role, operand)
    for pos, ins in enumerate(flat):
        for role, v in operands(ins):
            if not isinstance(v, L.Value):
                problems.append(("operand-not-a-value", "%s %%%s: %s is %r, not a value object" % (
                    type(ins).__name__, ins.Reference, role, v)))
                continue
            if isinstance(v, L.ConstantValue):
                reg = const_refs.get(v.Reference)
                if reg is None or reg.Value != v.Value or type(reg.Value) is not type(v.Value):
                    problems.append(("foreign-constant", "%s %%%s: %s is constant %s (%%%s) which is not registered with the function" % (
                        type(ins).__name__, ins.Reference, role, v, v.Reference)))
                continue
            if isinstance(v, L.BasicBlock) or not isinstance(v, L.Instruction):
                problems.append(("operand-not-an-instruction", "%s %%%s: %s is a %s" % (
                    type(ins).__name__, ins.Reference, role, type(v).__name__)))
                continue
            lv = live.get(v.Reference)
            if lv is None:
                problems.append(("dangling-operand", "%s %%%s: %s refers to %s %%%s which is no longer part of the function" % (
                    type(ins).__name__, ins.Reference, role, type(v).__name__, v.Reference)))
                continue
            v = lv
            if not defines_value(v):
                problems.append(("operand-without-value", "%s %%%s: %s refers to %s %%%s (%s) which does not produce a value" % (
                    type(ins).__name__, ins.Reference, role, type(v).__name__, v.Reference, v.OpCode.name)))
                continue
            uses.append((pos, role, v))

    # 3. branch targets
    succ = {}
    n = len(flat)
    for pos, ins in enumerate(flat):
        if isinstance(ins, L.BranchInstruction):
            targets = []
            tb, fb = ins.TrueBlock, ins.FalseBlock
            bad = False
            for nm, b in (("true", tb), ("false", fb)):
                if b is None:
                    continue
                if not isinstance(b, L.BasicBlock):
                    problems.append(("branch-target-not-a-block", "branch %%%s: %s target is %r" % (ins.Reference, nm, b)))
                    bad = True
                elif id(b) not in block_ids:
                    problems.append(("branch-target-foreign-block", "branch %%%s: %s target bb_%s is not a block of this function" % (
                        ins.Reference, nm, b.Reference)))
                    bad = True
                else:
                    targets.append(offset[id(b)])
            if tb is None:
                problems.append(("branch-without-target", "branch %%%s has no target" % ins.Reference))
                bad = True
            if ins.Predicate is not None and fb is None:
                problems.append(("conditional-branch-one-target", "conditional branch %%%s has no false target" % ins.Reference))
                bad = True
            if ins.Predicate is None and fb is not None:
                targets = targets[:1]
            succ[pos] = [] if bad else targets
        elif isinstance(ins, L.ReturnInstruction):
            succ[pos] = []
        else:
            succ[pos] = [pos + 1]

    # 4. calls
    if program_functions is not None:
        for ins in flat:
            if isinstance(ins, L.CallInstruction):
                callee = program_functions.get(ins.Function)
                if callee is None:
                    problems.append(("call-unknown-function", "call %%%s names %r which is not in the linked program" % (
                        ins.Reference, ins.Function)))
                elif len(callee.Type.Arguments) != len(ins.Arguments):
                    problems.append(("call-arity", "call %%%s passes %d arguments to %r which takes %d" % (
                        ins.Reference, len(ins.Arguments), ins.Function, len(callee.Type.Arguments))))

    # 5. must-be-defined dataflow (only meaningful if the structure is sound)
    if not any(p[0].startswith("branch") for p in problems) and n:
        TOP = None
        state = [TOP] * (n + 1)
        state[0] = frozenset()
        work = [0]
        while work:
            pos = work.pop()
            if pos >= n:
                continue
            cur = state[pos]
            ins = flat[pos]
            out = cur | {ins.Reference} if defines_value(ins) else cur
            for s in succ[pos]:
                if s > n:
                    continue
                old = state[s]
                new = out if old is TOP else (old & out)
                if old is TOP or new != old:
                    state[s] = frozenset(new)
                    work.append(s)
        for pos, role, v in uses:
            st = state[pos]
            if st is TOP:
                continue  # unreachable instruction: no path, nothing to violate
            if v.Reference not in st:
                ins = flat[pos]
                problems.append(("use-before-definition", "%s %%%s: %s = %%%s is not defined on every path reaching the use" % (
                    type(ins).__name__, ins.Reference, role, v.Reference)))
    return problems


def check_module(module, program_functions=None):
    out = []
    for name, fn in module.Functions.items():
        for kind, msg in check_function(fn, program_functions):
            out.append((kind, "function %s: %s" % (name, msg)))
    return out
