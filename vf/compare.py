"""Value comparison between the reference interpreter and the system."""
import math


import os

_EXACT = os.environ.get("VERIF_FLOAT_EXACT") == "1"


def same(a, b, rel=1e-9, abs_=1e-12):
    """numeric equality up to the stated float tolerance; ints exact; 1 == 1.0"""
    if _EXACT:
        rel, abs_ = 0.0, 0.0
    if isinstance(a, bool) or isinstance(b, bool):
        a = int(a) if isinstance(a, bool) else a
        b = int(b) if isinstance(b, bool) else b
    if isinstance(a, (int, float)) and isinstance(b, (int, float)):
        if isinstance(a, int) and isinstance(b, int):
            return a == b
        fa, fb = float(a), float(b)
        if fa != fa or fb != fb:
            return fa != fa and fb != fb
        return fa == fb or math.isclose(fa, fb, rel_tol=rel, abs_tol=abs_)
    if isinstance(a, (list, tuple)) and isinstance(b, (list, tuple)):
        return len(a) == len(b) and all(same(x, y, rel, abs_) for x, y in zip(a, b))
    if isinstance(a, dict) and isinstance(b, dict):
        return a.keys() == b.keys() and all(same(a[k], b[k], rel, abs_) for k in a)
    if a is None and b is None:
        return True
    return False


def exact(a, b):
    """C02-style equality: exact, NaN == NaN"""
    if isinstance(a, float) and isinstance(b, float) and a != a and b != b:
        return True
    if isinstance(a, (list, tuple)) and isinstance(b, (list, tuple)):
        return len(a) == len(b) and all(exact(x, y) for x, y in zip(a, b))
    if isinstance(a, dict) and isinstance(b, dict):
        return a.keys() == b.keys() and all(exact(a[k], b[k]) for k in a)
    if isinstance(a, (int, float)) and isinstance(b, (int, float)):
        return a == b
    return a is None and b is None
