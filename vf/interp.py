"""Reference interpreter over vf.model programs, written from the property
statements (C-like semantics), not from the VM.  See DESIGN.md 3.2."""
import math

from . import model as M

I32_MIN, I32_MAX = -(1 << 31), (1 << 31) - 1


class OutOfDomain(Exception):
    def __init__(self, reason):
        super().__init__(reason)
        self.reason = reason


class _Break(Exception):
    pass


class _Continue(Exception):
    pass


class _Return(Exception):
    def __init__(self, value):
        self.value = value


def zero(t, prog):
    k = t[0]
    if k == "s":
        return 0.0 if t[1] == "float" else 0
    if k == "v":
        return [zero(("s", t[1]), prog) for _ in range(t[2])]
    if k == "m":
        return [[zero(("s", t[1]), prog) for _ in range(t[3])] for _ in range(t[2])]
    if k == "a":
        dims = t[2]
        if len(dims) == 1:
            return [zero(t[1], prog) for _ in range(dims[0])]
        return [zero(("a", t[1], dims[1:]), prog) for _ in range(dims[0])]
    if k == "st":
        return {fn: zero(ft, prog) for ft, fn in prog.struct_fields(t[1])}
    raise ValueError(t)


def deep_copy(v):
    if isinstance(v, list):
        return [deep_copy(x) for x in v]
    if isinstance(v, dict):
        return {k: deep_copy(x) for k, x in v.items()}
    return v


def _chk_int(v):
    if not (I32_MIN <= v <= I32_MAX):
        raise OutOfDomain("int-overflow")
    return v


def _chk_float(v):
    if v != v or v in (math.inf, -math.inf):
        raise OutOfDomain("non-finite")
    return v


def conv_scalar(v, frm, to):
    """frm/to: scalar type names"""
    if frm == to:
        return v
    if to == "float":
        return float(v)
    if frm == "float":
        raise OutOfDomain("float->int conversion")
    if to == "uint":
        if v < 0:
            raise OutOfDomain("negative->uint")
        return v
    if to == "int":
        return _chk_int(v)
    raise OutOfDomain("conversion")


def convert(v, frm, to):
    """Convert a value of model type frm to model type to (same shape)."""
    if frm == to:
        return v
    if frm[0] == "s" and to[0] == "s":
        return conv_scalar(v, frm[1], to[1])
    if frm[0] == "v" and to[0] == "v" and frm[2] == to[2]:
        return [conv_scalar(x, frm[1], to[1]) for x in v]
    if frm[0] == "m" and to[0] == "m" and frm[2:] == to[2:]:
        return [[conv_scalar(x, frm[1], to[1]) for x in row] for row in v]
    raise OutOfDomain("conversion %s->%s" % (M.tname(frm), M.tname(to)))


def scalar_op(op, a, b, c):
    """a, b already converted to scalar type name c"""
    if op == "+":
        r = a + b
    elif op == "-":
        r = a - b
    elif op == "*":
        r = a * b
    elif op == "/":
        if b == 0:
            raise OutOfDomain("div-by-zero")
        if c == "float":
            r = a / b
        else:
            q = abs(a) // abs(b)
            r = q if (a < 0) == (b < 0) else -q
    elif op == "%":
        if c == "float":
            raise OutOfDomain("float-mod")
        if b == 0:
            raise OutOfDomain("div-by-zero")
        if a < 0 or b < 0:
            raise OutOfDomain("negative-mod")
        r = a % b
    elif op == "&&":
        return 1 if (a != 0 and b != 0) else 0
    elif op == "||":
        return 1 if (a != 0 or b != 0) else 0
    elif op == "<":
        return 1 if a < b else 0
    elif op == "<=":
        return 1 if a <= b else 0
    elif op == ">":
        return 1 if a > b else 0
    elif op == ">=":
        return 1 if a >= b else 0
    elif op == "==":
        return 1 if a == b else 0
    elif op == "!=":
        return 1 if a != b else 0
    else:
        raise ValueError(op)
    if c == "float":
        return _chk_float(r)
    if c == "uint":
        if r < 0:
            raise OutOfDomain("uint-negative")
        if r >= (1 << 32):
            raise OutOfDomain("int-overflow")
        return r
    return _chk_int(r)


class Result:
    def __init__(self, value, globals_, trace, steps):
        self.value = value
        self.globals = globals_
        self.trace = trace
        self.steps = steps


class Interp:
    def __init__(self, prog, globals_=None, step_limit=20000, depth_limit=30):
        self.p = prog
        self.g = globals_ if globals_ is not None else {}
        self.step_limit = step_limit
        self.depth_limit = depth_limit
        self.steps = 0
        self.depth = 0
        self.trace = {}
        self.frames = []
        self.loop_stack = []
        self.seen_aggdecl = set()
        self.frame_info = []

    # -- bookkeeping ------------------------------------------------------
    def note(self, k, n=1):
        self.trace[k] = self.trace.get(k, 0) + n

    def tick(self):
        self.steps += 1
        if self.steps > self.step_limit:
            raise OutOfDomain("step-budget")

    # -- variables ----------------------------------------------------------
    def lookup(self, name):
        scopes = self.frames[-1]
        for sc in reversed(scopes):
            if name in sc:
                return sc
        if name in self.g:
            return self.g
        raise KeyError(name)

    # -- entry ------------------------------------------------------------
    def find(self, fname):
        for i, f in enumerate(self.p.funcs):
            if f.name == fname and f.exported:
                return i
        for i, f in enumerate(self.p.funcs):
            if f.name == fname:
                return i
        raise KeyError(fname)

    def invoke(self, fname, args):
        """args: dict name -> host value (shared, like the VM does)"""
        f = self.p.funcs[self.find(fname)]
        vals = [args[n] for (_, n) in f.params]
        v = self.call_func(f, vals)
        return Result(v, self.g, self.trace, self.steps)

    def call_func(self, f, vals):
        self.depth += 1
        if self.depth > self.depth_limit:
            raise OutOfDomain("call-depth")
        scope = {}
        for (ty, nm), v in zip(f.params, vals):
            scope[nm] = v
        self.frames.append([scope])
        self.frame_info.append({"params": set(scope), "after_call": False, "callee_wrote": False})
        saved_loops = self.loop_stack
        self.loop_stack = []
        try:
            try:
                self.exec_block(f.body, new_scope=True)
                ret = None
            except _Return as r:
                ret = r.value
        finally:
            self.frames.pop()
            info = self.frame_info.pop()
            if self.frame_info:
                self.frame_info[-1]["after_call"] = True
                if info["callee_wrote"]:
                    self.frame_info[-1]["callee_wrote_before"] = True
            self.loop_stack = saved_loops
            self.depth -= 1
        if f.ret == M.VOID:
            return None
        if ret is None:
            raise OutOfDomain("missing-return")
        return ret

    # -- statements ---------------------------------------------------------
    def exec_block(self, b, new_scope=True):
        if new_scope:
            self.frames[-1].append({})
        try:
            for s in b.stmts:
                self.exec(s)
        finally:
            if new_scope:
                self.frames[-1].pop()

    def exec_scoped(self, s):
        """A statement in its own scope (loop body / branch)."""
        if isinstance(s, M.Block):
            self.exec_block(s)
        else:
            self.frames[-1].append({})
            try:
                self.exec(s)
            finally:
                self.frames[-1].pop()

    def truth(self, e):
        v = self.eval(e)
        if isinstance(v, (list, dict)):
            raise OutOfDomain("non-scalar condition")
        return v != 0

    def exec(self, s):
        self.tick()
        if isinstance(s, M.Decl):
            if s.init is not None:
                v = self.eval(s.init)
                v = self.store_conv(v, s.init.ty, s.ty)
            else:
                v = zero(s.ty, self.p)
                if self.loop_stack:
                    self.note("decl-in-loop")
                    if s.ty[0] in ("a", "st"):
                        if id(s) in self.seen_aggdecl:
                            self.note("aggregate-redeclared-in-loop")
                        self.seen_aggdecl.add(id(s))
            self.frames[-1][-1][s.name] = v
        elif isinstance(s, M.ExprStmt):
            self.eval(s.e)
        elif isinstance(s, M.Block):
            self.exec_block(s)
        elif isinstance(s, M.If):
            self.frames[-1].append({})
            try:
                if self.truth(s.cond):
                    self.note("branch-taken")
                    self.exec_scoped(s.then)
                elif s.els is not None:
                    self.note("branch-else")
                    self.exec_scoped(s.els)
                else:
                    self.note("branch-skipped")
            finally:
                self.frames[-1].pop()
        elif isinstance(s, M.For):
            self.frames[-1].append({})
            self.loop_stack.append("for")
            try:
                if s.init is not None:
                    self.exec(s.init)
                while True:
                    self.tick()
                    if s.cond is not None and not self.truth(s.cond):
                        break
                    self.note("iter:for")
                    try:
                        self.exec_scoped(s.body)
                    except _Break:
                        self.note("break:for")
                        break
                    except _Continue:
                        self.note("continue:for")
                    if s.next is not None:
                        self.eval(s.next)
            finally:
                self.loop_stack.pop()
                self.frames[-1].pop()
        elif isinstance(s, M.While):
            self.frames[-1].append({})
            self.loop_stack.append("while")
            try:
                while True:
                    self.tick()
                    if not self.truth(s.cond):
                        break
                    self.note("iter:while")
                    try:
                        self.exec_scoped(s.body)
                    except _Break:
                        self.note("break:while")
                        break
                    except _Continue:
                        self.note("continue:while")
            finally:
                self.loop_stack.pop()
                self.frames[-1].pop()
        elif isinstance(s, M.Do):
            self.frames[-1].append({})
            self.loop_stack.append("do")
            try:
                while True:
                    self.tick()
                    self.note("iter:do")
                    try:
                        self.exec_scoped(s.body)
                    except _Break:
                        self.note("break:do")
                        break
                    except _Continue:
                        self.note("continue:do")
                    if not self.truth(s.cond):
                        break
            finally:
                self.loop_stack.pop()
                self.frames[-1].pop()
        elif isinstance(s, M.Break):
            if len(self.loop_stack) >= 2:
                self.note("flow-in-nested-loop")
            raise _Break()
        elif isinstance(s, M.Continue):
            if len(self.loop_stack) >= 2:
                self.note("flow-in-nested-loop")
            raise _Continue()
        elif isinstance(s, M.Return):
            if s.e is None:
                raise _Return(None)
            v = self.eval(s.e)
            f = self.cur_func()
            raise _Return(self.store_conv(v, s.e.ty, f.ret))
        else:
            raise TypeError(s)

    def cur_func(self):
        return self._cur[-1]

    _cur = None

    # -- conversions on stores ------------------------------------------------
    def store_conv(self, v, frm, to):
        if frm == to:
            return v
        if frm[0] in "svm" and to[0] in "svm":
            return convert(v, frm, to)
        if frm[0] in ("a", "st"):
            raise OutOfDomain("aggregate-copy")
        raise OutOfDomain("conversion")

    # -- expressions --------------------------------------------------------
    def eval(self, e):
        self.tick()
        if isinstance(e, M.Lit):
            return e.value
        if isinstance(e, M.Var):
            info = self.frame_info[-1] if self.frame_info else None
            if info is not None and info["after_call"] and e.name in info["params"]:
                self.note("own-param-read-after-call")
                if info.get("callee_wrote_before"):
                    self.note("own-param-read-after-callee-wrote-its-param")
            return self.lookup(e.name)[e.name]
        if isinstance(e, M.Bin):
            return self.eval_bin(e.op, e.l, e.r)
        if isinstance(e, M.Assign):
            return self.eval_assign(e)
        if isinstance(e, M.Affix):
            sc = self.lookup(e.var.name)
            old = sc[e.var.name]
            c = e.var.ty[1]
            one = 1.0 if c == "float" else 1
            new = scalar_op("+" if e.op == "++" else "-", old, one, c)
            sc[e.var.name] = new
            info = self.frame_info[-1] if self.frame_info else None
            if info is not None and self.depth >= 2 and e.var.name in info["params"]:
                info["callee_wrote"] = True
                self.note("callee-param-write")
            self.note("affix:" + ("pre" if e.pre else "post"))
            self.note("op")
            return new if e.pre else old
        if isinstance(e, M.Index):
            b = self.eval(e.base)
            i = self.eval(e.idx)
            if isinstance(i, float):
                raise OutOfDomain("float-index")
            if not (0 <= i < len(b)):
                raise OutOfDomain("index-out-of-range")
            self.note("index:" + e.base.ty[0])
            return b[i]
        if isinstance(e, M.Member):
            b = self.eval(e.base)
            if M.is_struct(e.base.ty):
                self.note("field-read")
                return b[e.name]
            # swizzle
            if not isinstance(b, list):
                b = [b]
            idx = [M.SWZ[ch] for ch in e.name]
            for i in idx:
                if i >= len(b):
                    raise OutOfDomain("swizzle-component-out-of-range")
            self.note("swizzle-read")
            if len(idx) == 1:
                return b[idx[0]]
            return [b[i] for i in idx]
        if isinstance(e, M.Construct):
            return self.eval_construct(e)
        if isinstance(e, M.Call):
            f = self.p.funcs[e.target]
            vals = []
            for a, (pty, _) in zip(e.args, f.params):
                v = self.eval(a)
                if a.ty[0] in "svm":
                    v = convert(v, a.ty, pty)
                vals.append(v)
            self.note("call")
            if self.depth >= 2:
                self.note("call-depth>=2")
            if self._cur is None:
                self._cur = []
            self._cur.append(f)
            try:
                return self.call_func(f, vals)
            finally:
                self._cur.pop()
        raise TypeError(e)

    def eval_construct(self, e):
        t = e.ty
        c = t[1]
        if t[0] == "v":
            out = []
            for a in e.args:
                v = self.eval(a)
                ac = M.comp_of(a.ty)[1]
                if isinstance(v, list):
                    out.extend(conv_scalar(x, ac, c) for x in v)
                else:
                    out.append(conv_scalar(v, ac, c))
            if len(out) != t[2]:
                raise OutOfDomain("constructor-arity")
            self.note("construct-vector")
            return out
        if t[0] == "m":
            rows = []
            for a in e.args:
                v = self.eval(a)
                ac = M.comp_of(a.ty)[1]
                if not isinstance(v, list) or len(v) != t[3]:
                    raise OutOfDomain("constructor-arity")
                rows.append([conv_scalar(x, ac, c) for x in v])
            if len(rows) != t[2]:
                raise OutOfDomain("constructor-arity")
            self.note("construct-matrix")
            return rows
        if t[0] == "s":
            if len(e.args) != 1:
                raise OutOfDomain("constructor-arity")
            v = self.eval(e.args[0])
            return conv_scalar(v, M.comp_of(e.args[0].ty)[1], c)
        raise OutOfDomain("constructor")

    def eval_bin(self, op, le, re_):
        a = self.eval(le)
        b = self.eval(re_)
        return self.apply_bin(op, a, le.ty, b, re_.ty)

    def apply_bin(self, op, a, lt, b, rt):
        try:
            res, lc, rc = M.binop_type(op, lt, rt)
        except M.Undefined:
            raise OutOfDomain("undefined-typing")
        a = convert(a, lt, lc)
        b = convert(b, rt, rc)
        self.note("op")
        c = M.comp_of(lc)[1] if op in M.CMP else M.comp_of(res)[1]
        lk, rk = lc[0], rc[0]
        if lk == "s" and rk == "s":
            if op == "/" and c != "float":
                self.note("int-div")
            if lt != rt and op not in M.CMP:
                self.note("mixed-promotion")
            elif lt != rt:
                self.note("mixed-compare")
            return scalar_op(op, a, b, c)
        self.note("vecmat-op")
        if op == "*" and lk == "m" and rk in "mv":
            if rk == "v":
                out = []
                for row in a:
                    acc = 0.0 if c == "float" else 0
                    for x, y in zip(row, b):
                        acc = scalar_op("+", acc, scalar_op("*", x, y, c), c)
                    out.append(acc)
                return out
            n = len(b[0])
            out = []
            for row in a:
                orow = []
                for j in range(n):
                    acc = 0.0 if c == "float" else 0
                    for k, x in enumerate(row):
                        acc = scalar_op("+", acc, scalar_op("*", x, b[k][j], c), c)
                    orow.append(acc)
                out.append(orow)
            return out

        def sc(x, y):
            # component-wise = the scalar operation applied to every component, so integer
            # components divide like integer scalars (truncating toward zero)
            return scalar_op(op, x, y, c)

        def mapv(x, y):
            xs = isinstance(x, list)
            ys = isinstance(y, list)
            if xs and ys:
                return [mapv(p, q) for p, q in zip(x, y)]
            if xs:
                return [mapv(p, y) for p in x]
            if ys:
                return [mapv(x, q) for q in y]
            return sc(x, y)
        return mapv(a, b)

    def eval_assign(self, e):
        if e.op == "=":
            v = self.eval(e.value)
            v = self.store_conv(v, e.value.ty, e.target.ty)
        else:
            cur = self.eval(e.target)
            rhs = self.eval(e.value)
            bop = e.op[0]
            v = self.apply_bin(bop, cur, e.target.ty, rhs, e.value.ty)
            try:
                rty = M.binop_type(bop, e.target.ty, e.value.ty)[0]
            except M.Undefined:
                raise OutOfDomain("undefined-typing")
            v = self.store_conv(v, rty, e.target.ty)
            self.note("compound-assign")
        self.assign(e.target, v)
        return v

    def assign(self, target, v):
        if isinstance(target, M.Var):
            info = self.frame_info[-1] if self.frame_info else None
            if info is not None and self.depth >= 2 and target.name in info["params"]:
                info["callee_wrote"] = True
                self.note("callee-param-write")
            self.lookup(target.name)[target.name] = v
            return
        if isinstance(target, M.Index):
            b = self.eval(target.base)
            i = self.eval(target.idx)
            if isinstance(i, float):
                raise OutOfDomain("float-index")
            if not (0 <= i < len(b)):
                raise OutOfDomain("index-out-of-range")
            if M.is_arr(target.base.ty):
                b[i] = v
                self.note("array-write")
                return
            nb = list(b)
            nb[i] = v
            self.note("element-write")
            self.assign(target.base, nb)
            return
        if isinstance(target, M.Member):
            b = self.eval(target.base)
            if M.is_struct(target.base.ty):
                b[target.name] = v
                self.note("field-write")
                return
            nb = list(b)
            idx = [M.SWZ[ch] for ch in target.name]
            vals = v if isinstance(v, list) else [v]
            for i, x in zip(idx, vals):
                if i >= len(nb):
                    raise OutOfDomain("swizzle-component-out-of-range")
                nb[i] = x
            self.note("swizzle-write")
            self.assign(target.base, nb)
            return
        raise OutOfDomain("bad-assignment-target")


def run(prog, fname, args, globals_, step_limit=20000):
    """-> Result or raises OutOfDomain.  args/globals_ are deep-copied."""
    it = Interp(prog, deep_copy(globals_), step_limit=step_limit)
    it._cur = []
    f = prog.funcs[it.find(fname)]
    it._cur.append(f)
    a = {k: deep_copy(v) for k, v in args.items()}
    try:
        r = it.invoke(fname, a)
    except RecursionError:
        raise OutOfDomain("python-recursion")
    r.args_after = a
    return r
