"""Loosely typed generator over the whole spellable language (C05).  Programs are
steered by *shape* (scalar / vector of n / matrix of n) only, component types are
mixed freely, so that a large fraction passes the front end without being limited
to the combinations the back end is known to handle.  No reference semantics is
attached: the model types on the nodes are only hints for the generator."""
from hypothesis import strategies as st

from . import gen
from . import model as M
from .model import INT, FLOAT, UINT

SCALARS = [INT, FLOAT, UINT]
VECS = [M.vec(c, n) for c in ("float", "int", "uint") for n in (2, 3, 4)]
MATS = [M.mat("float", 3, 3), M.mat("float", 4, 4)]
XYZW, RGBA = "xyzw", "rgba"


def shape_of(t):
    if t[0] == "s":
        return ("S",)
    if t[0] == "v":
        return ("V", t[2])
    if t[0] == "m":
        return ("M", t[2])
    return None


class GL:
    def __init__(self, draw):
        self.draw = draw
        self.structs = []      # (name, fields)
        self.globals = {}
        self.scopes = []
        self.funcs = []        # M.Func
        self.loop_depth = 0
        self.counter = 0
        self.budget = 0
        self.ret_ty = INT
        self.may_div0 = False
        self.may_oob = False
        self.features = set()
        self.call_depth = 0
        self.closed_names = []   # names whose scope has ended (legally reusable)
        self.earlier_locals = [] # local names of the functions generated so far
        self.leaky = 0         # scope-loose programs: names of closed scopes may stay visible to the generator

    # -- helpers -----------------------------------------------------------------------
    def d(self, s):
        return self.draw(s)

    def chance(self, pct):
        return self.d(st.integers(0, 99)) < pct

    def pick(self, seq):
        return self.d(st.sampled_from(list(seq)))

    def visible(self):
        out = dict(self.globals)
        for sc in self.scopes:
            out.update(sc)
        return out

    def fresh(self, prefix):
        self.counter += 1
        return "%s%d" % (prefix, self.counter)

    def declare(self, name, ty):
        self.scopes[-1][name] = ty

    def fields(self, sname):
        return [f for n, f in self.structs if n == sname][0]

    # -- readable / writable places of a given shape (lazy: draws only along one chosen path) -------
    def can_yield(self, t, shape, d, writable):
        if shape_of(t) == shape:
            return True
        if d <= 0:
            return False
        if t[0] == "v":
            if shape == ("S",):
                return True
            return shape[0] == "V" and (not writable or shape[1] <= t[2])
        if t[0] == "m":
            return self.can_yield(("v", t[1], t[3]), shape, d - 1, writable)
        if t[0] == "a":
            et = t[1] if len(t[2]) == 1 else ("a", t[1], t[2][1:])
            return self.can_yield(et, shape, d - (0 if len(t[2]) > 1 else 1), writable)
        if t[0] == "st":
            return any(self.can_yield(ft, shape, d - 1, writable) for ft, fn in self.fields(t[1]))
        if t[0] == "s":
            return shape[0] in "SV" and not writable
        return False

    def derive(self, e, t, shape, d, writable):
        """one expression of the wanted shape reachable from e : t"""
        opts = []
        if shape_of(t) == shape:
            opts.append("self")
        if d > 0:
            if t[0] == "v":
                if shape == ("S",):
                    opts += ["vidx", "vswz"]
                elif shape[0] == "V" and (not writable or shape[1] <= t[2]):
                    opts.append("vmask")
            elif t[0] == "m" and self.can_yield(("v", t[1], t[3]), shape, d - 1, writable):
                opts.append("row")
            elif t[0] == "a":
                et = t[1] if len(t[2]) == 1 else ("a", t[1], t[2][1:])
                if self.can_yield(et, shape, d - (0 if len(t[2]) > 1 else 1), writable):
                    opts.append("elem")
            elif t[0] == "st":
                for ft, fn in self.fields(t[1]):
                    if self.can_yield(ft, shape, d - 1, writable):
                        opts.append(("field", ft, fn))
            elif t[0] == "s" and shape[0] in "SV" and not writable and shape_of(t) != shape:
                opts.append("sswz")
        if not opts:
            return None
        o = self.pick(opts) if len(opts) > 1 else opts[0]
        if o == "self":
            return e
        if o == "vidx":
            return M.Index(e, self.index(t[2]), ("s", t[1]))
        if o == "vswz":
            letters = XYZW if self.chance(60) else RGBA
            if self.chance(6):
                # a selector the vector may not have: the front end has to fence it off
                self.features.add("possibly-out-of-range-selector")
                return M.Member(e, self.pick(letters), ("s", t[1]))
            return M.Member(e, self.pick(letters[:t[2]]), ("s", t[1]))
        if o == "vmask":
            letters = list((XYZW if self.chance(60) else RGBA)[:t[2]])
            if self.chance(5) and t[2] < 4:
                self.features.add("possibly-out-of-range-selector")
                letters = list(XYZW if self.chance(50) else RGBA)
            mask = ""
            for _ in range(shape[1]):
                ch = self.pick(letters)
                if writable:
                    letters.remove(ch)
                mask += ch
            return M.Member(e, mask, ("v", t[1], shape[1]))
        if o == "row":
            rt = ("v", t[1], t[3])
            return self.derive(M.Index(e, self.index(t[2]), rt), rt, shape, d - 1, writable)
        if o == "elem":
            et = t[1] if len(t[2]) == 1 else ("a", t[1], t[2][1:])
            return self.derive(M.Index(e, self.index(t[2][0]), et), et, shape, d - (0 if len(t[2]) > 1 else 1), writable)
        if o == "sswz":
            self.features.add("scalar-swizzle")
            n = 1 if shape == ("S",) else shape[1]
            ch = "x" if self.chance(75) else self.pick("rxygb")
            return M.Member(e, ch * n, t if n == 1 else ("v", t[1], n))
        _, ft, fn = o
        return self.derive(M.Member(e, fn, ft), ft, shape, d - 1, writable)

    def place(self, shape, depth=2, writable=False, prefer=None):
        roots = [(n, t) for n, t in sorted(self.visible().items())
                 if self.can_yield(t, shape, depth, writable) and not (writable and n in getattr(self, "protected", ()))]
        if shape == ("S",) and not writable:
            # plain scalars swizzled (s.x) only occasionally
            direct = [r for r in roots if r[1][0] != "s" or shape_of(r[1]) == shape]
            roots = direct or roots
        if not roots:
            return None
        if prefer is not None:
            pref = [r for r in roots if r[1] == prefer]
            if pref and self.chance(70):
                roots = pref
        n, t = self.pick(roots)
        return self.derive(M.Var(n, t), t, shape, depth, writable)

    def places(self, shape, depth=2, writable=False):
        """compatibility: a list with at most one lazily derived place"""
        p = self.place(shape, depth, writable)
        return [p] if p is not None else []

    def index(self, size):
        r = self.d(st.integers(0, 99))
        if getattr(self, "_in_index", 0) >= 1:
            r = r % 60  # no index expressions inside index expressions: bounds the generator's recursion
        if r < 60:
            v = self.d(st.integers(0, size - 1))
            return M.Lit(v, INT, self.pick([str(v), hex(v), str(v)]))
        bounded = [n for n, (lo, hi) in getattr(self, "bounded", {}).items() if hi < size and n in self.visible()]
        if bounded and r < 85:
            return M.Var(self.pick(sorted(bounded)), INT)
        if r < 93:
            # folded into range: (e % size) on a non-negative uint
            us = [n for n, t in self.visible().items() if t == UINT]
            if us:
                return M.Bin("%", M.Var(self.pick(sorted(us)), UINT), M.Lit(size, INT, str(size)), ty=UINT)
        self.may_oob = True
        self.features.add("unbounded-dynamic-index")
        self._in_index = getattr(self, "_in_index", 0) + 1
        try:
            e = self.scalar(1, want=self.pick([INT, UINT]))
        finally:
            self._in_index -= 1
        if not (isinstance(e, (M.Var, M.Lit)) and e.ty in (INT, UINT)) and self.chance(85):
            # most index expressions are converted explicitly; the rest exercises the index-type check
            e = M.Construct(self.pick([INT, INT, UINT]), [e])
        return e

    # -- expressions by shape ------------------------------------------------------------------
    def lit(self, ty=None):
        ty = ty or self.pick([INT, INT, FLOAT])
        if ty == FLOAT:
            v, s = self.pick(gen._FLOAT_SPELL)
            return M.Lit(v, FLOAT, s)
        if self.chance(5):
            v = self.pick([16777217, 33554433, 123456789, 2147483647, 65536])
        else:
            v = self.d(st.integers(0, 9) if ty == UINT else st.integers(-9, 12))
        return M.Lit(v, INT, str(v))

    def scalar(self, depth, want=None):
        r = self.d(st.integers(0, 99))
        if depth <= 0 or r < 28:
            pl = self.places(("S",))
            if want is not None:
                pref = [p for p in pl if p.ty == want]
                pl = pref or pl
            if pl and self.chance(70):
                return self.pick(pl)
            return self.lit(want if want in (INT, FLOAT) else None)
        if r < 70:
            op = self.pick(M.ARITH + M.ARITH + M.CMP + M.LOGIC)
            l = self.scalar(depth - 1, want if self.chance(60) else None)
            rr = self.scalar(depth - 1, want if self.chance(60) else None)
            if op in ("/", "%"):
                if self.chance(70):
                    v = self.d(st.integers(1, 7))
                    rr = M.Lit(v, INT, str(v)) if self.chance(70) else M.Lit(float(v), FLOAT, "%d.0" % v)
                else:
                    self.may_div0 = True
            return M.Bin(op, l, rr, ty=l.ty if op in M.ARITH else INT, paren=self.chance(10))
        if r < 80:
            c = self.call(("S",), depth)
            if c is not None:
                return c
        if r < 90:
            # constructor used as a cast
            self.features.add("scalar-constructor-cast")
            t = self.pick(SCALARS)
            return M.Construct(t, [self.scalar(depth - 1)])
        if r < 95 and want in (None, INT, FLOAT):
            vs = [(n, t) for n, t in self.visible().items() if t in (INT, FLOAT) and n not in getattr(self, "protected", ())]
            if vs:
                n, t = self.pick(sorted(vs))
                self.features.add("affix-in-expression")
                return M.Affix(self.pick(["++", "--"]), M.Var(n, t), self.chance(50))
        return self.lit(want if want in (INT, FLOAT) else None)

    def vector(self, n, depth, comp=None):
        comp = comp or self.pick(["float", "float", "int", "uint"])
        ty = ("v", comp, n)
        r = self.d(st.integers(0, 99))
        if depth <= 0 or r < 25:
            pl = self.places(("V", n))
            pref = [p for p in pl if p.ty[1] == comp]
            if (pref or pl) and self.chance(75):
                return self.pick(pref if pref and self.chance(70) else pl)
            return self.vconstruct(ty, 0)
        if r < 45:
            op = self.pick(["+", "-", "+", "-", "%", "&&", "||"] + list(M.CMP) + ["*", "/"])
            if op in ("%", "&&", "||"):
                self.features.add("vector-" + {"%": "mod", "&&": "and", "||": "or"}[op])
            l = self.vector(n, depth - 1, comp if self.chance(55) else None)
            rr = self.vector(n, depth - 1, comp if self.chance(55) else None)
            if l.ty[1] != rr.ty[1]:
                self.features.add("mixed-component-vector-op")
            return M.Bin(op, l, rr, ty=ty)
        if r < 62:
            l = self.vector(n, depth - 1, comp)
            s = self.scalar(depth - 1)
            op = self.pick(["*", "*", "/"])
            if op == "/":
                v = self.d(st.integers(1, 5))
                s = M.Lit(v, INT, str(v)) if self.chance(50) else M.Lit(float(v), FLOAT, "%d.0" % v)
            return M.Bin(op, l, s, ty=ty)
        if r < 70:
            self.features.add("scalar-times-vector")
            return M.Bin("*", self.scalar(depth - 1), self.vector(n, depth - 1, comp), ty=ty)
        if r < 77 and n in (3, 4):
            self.features.add("matrix-times-vector")
            return M.Bin("*", self.matrix(n, depth - 1), self.vector(n, depth - 1, "float"), ty=("v", "float", n))
        if r < 84:
            c = self.call(("V", n), depth)
            if c is not None:
                return c
        return self.vconstruct(ty, depth)

    def vconstruct(self, ty, depth):
        n = ty[2]
        parts = []
        rem = n
        while rem > 0:
            k = 1
            if rem >= 2 and self.chance(30):
                k = self.d(st.integers(2, rem))
                if k == n:
                    # float3(int3) - a vector cast
                    self.features.add("vector-constructor-cast")
            if k == 1:
                parts.append(self.scalar(max(depth - 1, 0)))
            else:
                parts.append(self.vector(k, max(depth - 1, 0)))
            rem -= k
        return M.Construct(ty, parts)

    def matrix(self, n, depth):
        ty = ("m", "float", n, n)
        r = self.d(st.integers(0, 99))
        pl = [p for p in self.places(("M", n), depth=1)]
        if (depth <= 0 or r < 35) and pl:
            return self.pick(pl)
        if depth <= 0 or r < 45:
            return M.Construct(ty, [self.vector(n, 0, "float") for _ in range(n)])
        if r < 60:
            return M.Bin(self.pick(["+", "-"]), self.matrix(n, depth - 1), self.matrix(n, depth - 1), ty=ty)
        if r < 72:
            op = self.pick(["*", "/"])
            if op == "/":
                v = self.d(st.integers(1, 4))
                rhs = M.Lit(v, INT, str(v)) if self.chance(50) else M.Lit(float(v), FLOAT, "%d.0" % v)
            else:
                rhs = self.lit(self.pick([INT, FLOAT])) if self.chance(50) else self.scalar(0)
            return M.Bin(op, self.matrix(n, depth - 1), rhs, ty=ty)
        if r < 78:
            self.features.add("scalar-times-matrix")
            return M.Bin("*", self.scalar(0), self.matrix(n, depth - 1), ty=ty)
        if r < 90:
            return M.Bin("*", self.matrix(n, depth - 1), self.matrix(n, depth - 1), ty=ty)
        if r < 95:
            self.features.add("matrix-comparison")
            return M.Bin(self.pick(M.CMP), self.matrix(n, depth - 1), self.matrix(n, depth - 1), ty=ty)
        return M.Construct(ty, [self.vector(n, 0, self.pick(["float", "int"])) for _ in range(n)])

    def of_type(self, ty, depth):
        sh = shape_of(ty)
        if sh == ("S",):
            return self.scalar(depth, want=ty if self.chance(75) else None)
        if sh[0] == "V":
            return self.vector(sh[1], depth, ty[1] if self.chance(70) else None)
        return self.matrix(sh[1], depth)

    def call(self, shape, depth):
        if self.call_depth >= 2:
            return None
        cands = [(i, f) for i, f in enumerate(self.funcs) if f.ret != M.VOID and shape_of(f.ret) == shape]
        if not cands:
            return None
        i, f = self.pick(cands)
        self.call_depth += 1
        args = []
        for pty, _ in f.params:
            if pty[0] in "svm":
                args.append(self.of_type(pty, max(depth - 1, 0)))
            else:
                same = [n for n, t in self.visible().items() if t == pty]
                if not same:
                    self.call_depth -= 1
                    return None
                args.append(M.Var(self.pick(sorted(same)), pty))
        self.call_depth -= 1
        self.features.add("call")
        return M.Call(f.name, args, f.ret, i)

    # -- statements -----------------------------------------------------------------------------
    def any_type(self, local=True):
        r = self.d(st.integers(0, 99))
        if r < 35:
            return self.pick(SCALARS)
        if r < 60:
            return self.pick(VECS)
        if r < 70:
            return self.pick(MATS)
        if r < 90 or not self.structs or local:
            el = self.pick(SCALARS + SCALARS + VECS[:6] + (MATS[:1] if self.chance(20) else []))
            dims = tuple(self.d(st.integers(1, 3)) for _ in range(self.d(st.sampled_from([1, 1, 1, 2, 2, 3]))))
            if len(dims) > 1:
                self.features.add("multi-dimensional-array")
            if el[0] != "s":
                self.features.add("array-of-vectors")
            return M.arr(el, dims)
        return M.struct(self.pick([s[0] for s in self.structs]))

    def decl(self):
        r = self.d(st.integers(0, 99))
        if self.structs and r < 12:
            ty = M.struct(self.pick([s[0] for s in self.structs]))
        else:
            ty = self.any_type(local=True)
        name = self.fresh("v")
        reusable = [n for n in self.closed_names if n not in self.visible()]
        if reusable and self.chance(18):
            # legal reuse of a name whose scope has ended, usually with another type
            name = self.pick(reusable)
            self.features.add("name-of-a-closed-scope-reused")
        if self.leaky and self.globals and self.chance(12):
            # name-loose: the local carries the name of a global (the front end must refuse the redeclaration)
            name = self.pick(sorted(self.globals))
            self.leaky -= 1
            self.features.add("local-named-like-a-global")
        init = None
        if ty[0] in "svm" and self.chance(65):
            init = self.of_type(ty, 2)
        self.declare(name, ty)
        return M.Decl(ty, name, init)

    def assign(self):
        sh = self.pick([("S",), ("S",), ("S",), ("V", 2), ("V", 3), ("V", 4), ("M", 3), ("M", 4)])
        pl = [p for p in self.places(sh, writable=True) if not (isinstance(p, M.Var) and p.name in getattr(self, "protected", ()))]
        if not pl:
            pl = self.places(("S",), writable=True)
            sh = ("S",)
            if not pl:
                return None
        tgt = self.pick(pl)
        op = self.pick(["=", "=", "=", "+=", "-=", "*=", "/="])
        if sh == ("S",):
            val = self.scalar(2, want=tgt.ty if self.chance(70) else None)
            if op == "/=":
                v = self.d(st.integers(1, 5))
                val = M.Lit(v, INT, str(v))
        elif sh[0] == "V":
            val = self.vector(sh[1], 2, tgt.ty[1] if self.chance(70) else None)
            if op in ("*=", "/="):
                val = self.lit(INT if op == "/=" else None)
                if op == "/=":
                    val = M.Lit(2, INT, "2")
        else:
            val = self.matrix(sh[1], 1)
            if op in ("*=", "/="):
                val = M.Lit(2.0, FLOAT, "2.0")
        if op == "=" and sh == ("S",) and self.chance(8):
            others = [p for p in self.places(("S",), writable=True) if isinstance(p, M.Var) and p.name != getattr(tgt, "name", None)]
            if others:
                self.features.add("chained-assignment")
                val = M.Assign(self.pick(others), "=", val)
        return M.ExprStmt(M.Assign(tgt, op, val))

    def body(self, depth):
        self.scopes.append({})
        n = self.d(st.integers(1, 3))
        out = [self.stmt(depth) for _ in range(n)]
        self._close_scope()
        return M.Block([s for s in out if s is not None])

    def _close_scope(self):
        sc = self.scopes.pop()
        self.closed_names.extend(n for n in sc if n not in self.closed_names)
        if self.leaky and sc and self.scopes and self.chance(25):
            self.leaky -= 1
            # the generator (not the language) keeps the names: later statements may name variables whose scope has
            # ended - the front end must refuse those programs
            self.scopes[-1].update(sc)
            self.features.add("names-of-a-closed-scope-kept")

    def stmt(self, depth):
        self.budget -= 1
        r = self.d(st.integers(0, 99))
        if depth <= 0:
            r = r % 62
        if self.leaky and self.chance(10):
            # a declaration as the unbraced body of an if / while: its scope ends with that statement
            d = self.decl()
            if isinstance(d, M.Decl):
                self.leaky -= 1
                self.features.add("unbraced-declaration-body")
                cond = self.scalar(1)
                if d.ty[0] == "s" and self.chance(50):
                    # the condition names the variable its own unbraced body declares (a use before the declaration)
                    cond = M.Var(d.name, d.ty)
                st_ = M.If(cond, d) if self.chance(55) else M.While(M.Bin("<", cond, M.Lit(0, INT, "0")), d)
                if d.ty[0] in "svm" and self.chance(70):
                    # ... and the name is used right behind that statement
                    v = M.Var(d.name, d.ty)
                    return M.Block([st_, M.ExprStmt(M.Assign(v, "=", v))])
                return st_
            return d
        if r < 20:
            return self.decl()
        if r < 46:
            return self.assign() or self.decl()
        if r < 52:
            vs = [(n, t) for n, t in self.visible().items() if t in (INT, FLOAT, UINT) and n not in getattr(self, "protected", ())]
            if vs:
                n, t = self.pick(sorted(vs))
                return M.ExprStmt(M.Affix(self.pick(["++", "--"]), M.Var(n, t), self.chance(50)))
            return self.decl()
        if r < 56:
            if self.loop_depth > 0:
                return M.If(self.scalar(1), M.Break() if self.chance(50) else M.Continue())
            return M.ExprStmt(self.scalar(2))
        if r < 59:
            vf = [(i, f) for i, f in enumerate(self.funcs) if f.ret == M.VOID]
            if vf and self.call_depth < 2:
                i, f = self.pick(vf)
                args = [self.of_type(pty, 1) for pty, _ in f.params if pty[0] in "svm"]
                if len(args) == len(f.params):
                    self.features.add("void-call")
                    return M.ExprStmt(M.Call(f.name, args, M.VOID, i))
            return M.ExprStmt(self.scalar(2))
        if r < 62:
            if self.ret_ty == M.VOID:
                return M.If(self.scalar(1), M.Block([M.Return(None)]))
            return M.If(self.scalar(1), M.Block([M.Return(self.of_type(self.ret_ty, 2))]))
        if r < 76:
            self.scopes.append({})
            c = self.scalar(2)
            then = self.body(depth - 1)
            els = self.body(depth - 1) if self.chance(40) else None
            self._close_scope()
            return M.If(c, then, els)
        if r < 86:
            self.scopes.append({})
            i = self.fresh("i")
            k = self.d(st.integers(1, 3))
            self.declare(i, INT)
            self.bounded = dict(getattr(self, "bounded", {}))
            self.bounded[i] = (0, k - 1)
            self.protected = set(getattr(self, "protected", ())) | {i}
            self.loop_depth += 1
            b = self.body(depth - 1)
            self.loop_depth -= 1
            self.bounded.pop(i, None)
            self.protected.discard(i)
            self.scopes.pop()
            return M.For(M.Decl(INT, i, M.Lit(0, INT, "0")), M.Bin("<", M.Var(i, INT), M.Lit(k, INT, str(k))),
                         M.Affix("++", M.Var(i, INT), self.chance(50)), b)
        if r < 94:
            n = self.fresh("n")
            self.scopes.append({})
            self.declare(n, INT)
            self.protected = set(getattr(self, "protected", ())) | {n}
            self.loop_depth += 1
            self.scopes.append({})
            b = self.body(depth - 1)
            self.scopes.pop()
            self.loop_depth -= 1
            self.protected.discard(n)
            self.scopes.pop()
            dec = M.ExprStmt(M.Affix("--", M.Var(n, INT), self.chance(50)))
            b.stmts.insert(0, dec)
            cond = M.Bin(">", M.Var(n, INT), M.Lit(0, INT, "0"))
            loop = M.While(cond, b) if self.chance(55) else M.Do(b, cond)
            return M.Block([M.Decl(INT, n, M.Lit(self.d(st.integers(1, 3)), INT, None)), loop])
        return self.body(depth - 1)

    def function(self, name, exported):
        self.scopes = [{}]
        self.loop_depth = 0
        self.bounded = {}
        self.protected = set()
        params = []
        for k in range(self.d(st.integers(0, 3))):
            r = self.d(st.integers(0, 99))
            if r < 45:
                ty = self.pick(SCALARS)
            elif r < 75:
                ty = self.pick(VECS)
            elif r < 85:
                ty = self.pick(MATS)
            elif r < 95 or not self.structs:
                ty = M.arr(self.pick(SCALARS), (self.d(st.integers(1, 3)),))
            else:
                ty = M.struct(self.pick([s[0] for s in self.structs]))
            nm = "p%d" % k
            cands = [n for n in self.earlier_locals if n not in self.globals and n not in [x for _, x in params]]
            if cands and self.chance(15):
                # legal: a parameter spelled like a local of an earlier function
                nm = self.pick(sorted(set(cands)))
                self.features.add("parameter-named-like-a-local-of-an-earlier-function")
            if self.leaky and self.globals and self.chance(10):
                # name-loose: a parameter named like a global
                nm = self.pick(sorted(self.globals))
                if nm in [n for _, n in params]:
                    nm = "p%d" % k
                else:
                    self.leaky -= 1
                    self.features.add("parameter-named-like-a-global")
            params.append((ty, nm))
            self.declare(nm, ty)
        r = self.d(st.integers(0, 99))
        self.ret_ty = (self.pick(SCALARS) if r < 50 else self.pick(VECS) if r < 75 else self.pick(MATS) if r < 85 else M.VOID)
        self.budget = self.d(st.integers(2, 9))
        self.scopes.append({})
        stmts = []
        while self.budget > 0:
            s = self.stmt(2)
            if s is not None:
                stmts.append(s)
        if self.ret_ty != M.VOID:
            if self.chance(93):
                stmts.append(M.Return(self.of_type(self.ret_ty, 2)))
            else:
                self.features.add("non-void-without-final-return")
        body_scope = self.scopes.pop()
        self.earlier_locals += [n for n in list(body_scope) + self.closed_names if n not in self.earlier_locals]
        self.closed_names = []
        return M.Func(name, params, self.ret_ty, M.Block(stmts), exported)


class LooseCase(gen.Case):
    def __init__(self, prog, entries, inputs, paren_mode, meta):
        super().__init__(prog, entries[0] if entries else "f0", inputs.get(entries[0], []) if entries else [], paren_mode, "loose")
        self.entries = entries
        self.all_inputs = inputs
        self.meta = meta

    def show(self):
        out = [self.source()]
        for e in self.entries:
            for a, g in self.all_inputs.get(e, []):
                out.append("// invoke %s(%s) globals=%r" % (e, ", ".join("%s=%r" % kv for kv in a.items()), g))
        out.append("// may_div0=%s may_oob=%s" % (self.meta.get("may_div0"), self.meta.get("may_oob")))
        return "\n".join(out)


@st.composite
def loose_case(draw, n_inputs=2):
    g = GL(draw)
    g.leaky = draw(st.sampled_from([1, 1, 2])) if g.chance(15) else 0   # how many scope-loose constructs the program may get
    if g.chance(55):
        inner = None
        if g.chance(35):
            g.structs.append(("T0", [(g.pick(SCALARS + VECS[:3]), "t%d" % k) for k in range(draw(st.integers(1, 2)))]))
            inner = M.struct("T0")
            g.features.add("nested-struct")
        fields = []
        for k in range(draw(st.integers(1, 4))):
            r = draw(st.integers(0, 99))
            ft = (g.pick(SCALARS) if r < 45 else g.pick(VECS) if r < 70 else g.pick(MATS) if r < 78 else
                  M.arr(g.pick(SCALARS), (draw(st.integers(1, 3)),)) if r < 86 else
                  (M.arr(inner, (draw(st.integers(1, 2)),)) if (inner and r < 92) else (inner or g.pick(SCALARS))))
            fields.append((ft, "f%d" % k))
        g.structs.append(("S0", fields))
    globs = []
    for k in range(draw(st.integers(0, 4))):
        ty = g.any_type(local=False)
        globs.append((ty, "g%d" % k))
    for ty, nm in globs:
        g.globals[nm] = ty
    nf = draw(st.integers(1, 3))
    for k in range(nf):
        exported = k == nf - 1 or g.chance(50)
        g.funcs.append(g.function("fn%d" % k, exported))
    prog = M.Program(g.structs, globs, g.funcs)
    entries = [f.name for f in g.funcs if f.exported]
    inputs = {}
    for f in g.funcs:
        if not f.exported:
            continue
        rows = []
        for _ in range(n_inputs):
            args = {nm: draw(gen.value_of(ty, prog)) for ty, nm in f.params}
            gl = {nm: draw(gen.value_of(ty, prog)) for ty, nm in globs}
            rows.append((args, gl))
        inputs[f.name] = rows
    return LooseCase(prog, entries, inputs, draw(st.sampled_from(["full", "min"])),
                     {"may_div0": g.may_div0, "may_oob": g.may_oob, "features": sorted(g.features)})
