"""A 'never compiled anything' reference process.

`python -m vf.pristine` is a server that imports the code under test and then,
for every request, forks a child that performs exactly one compilation and
reports listing / wasm bytes / outcome.  The parent never compiles, so every
answer is what a fresh process produces.  Used by C17 / C18 as the reference
side of their metamorphic relations."""
import os
import pickle
import struct
import subprocess
import sys


def _describe(src, optimize, wasm, cwd=None):
    """one compilation -> plain data (runs in the forked child); `cwd`: directory the compilation runs in
    (imports are resolved relative to it)"""
    from . import adapter
    if cwd is not None:
        os.chdir(cwd)
    c = adapter.compile_src(src, optimize=optimize, wasm=wasm)
    return describe_compiled(c, wasm)


def describe_compiled(c, wasm):
    from . import adapter
    if not c.ok:
        return {"ok": False, "why": normalise(c.why())}
    out = {"ok": True, "listing": adapter.listing(c.ir), "globals": [str(k) for k in c.ir.Globals.keys()],
           "functions": list(c.ir.Functions.keys())}
    if wasm:
        try:
            out["wasm"] = adapter.wasm_bytes(c.result).hex()
        except Exception as e:
            out["wasm"] = "write-refused:" + type(e).__name__
    return out


def normalise(s):
    import re
    return re.sub(r"0x[0-9a-fA-F]+", "0x?", s)


def _send(fd, obj):
    data = pickle.dumps(obj, protocol=4)
    os.write(fd, struct.pack("<I", len(data)))
    view = memoryview(data)
    while view:
        n = os.write(fd, view)
        view = view[n:]


def _read_exact(fd, n):
    buf = b""
    while len(buf) < n:
        chunk = os.read(fd, n - len(buf))
        if not chunk:
            raise EOFError()
        buf += chunk
    return buf


def _recv(fd):
    (n,) = struct.unpack("<I", _read_exact(fd, 4))
    return pickle.loads(_read_exact(fd, n))


def serve():
    # stdin / stdout carry the protocol; anything the compiler prints goes to /dev/null
    inp = os.dup(0)
    out = os.dup(1)
    devnull = os.open(os.devnull, os.O_RDWR)
    os.dup2(devnull, 0)
    os.dup2(devnull, 1)
    os.dup2(devnull, 2)
    from . import adapter  # noqa: F401  (imports nsl, compiles nothing)
    while True:
        try:
            req = _recv(inp)
        except EOFError:
            return
        if req is None:
            return
        pid = os.fork()
        if pid == 0:
            try:
                res = [_describe(*r) for r in req]
            except BaseException as e:  # noqa
                res = {"error": repr(e)}
            try:
                _send(out, res)
            finally:
                os._exit(0)
        os.waitpid(pid, 0)


class Pristine:
    def __init__(self, env=None):
        here = os.path.dirname(os.path.dirname(os.path.abspath(__file__)))
        e = dict(os.environ)
        e["PYTHONPATH"] = here + os.pathsep + e.get("PYTHONPATH", "")
        if env:
            e.update(env)
        self.p = subprocess.Popen([sys.executable, "-m", "vf.pristine"], stdin=subprocess.PIPE,
                                  stdout=subprocess.PIPE, env=e, cwd=here)

    def compile_many(self, reqs):
        """reqs: list of (src, optimize, wasm[, cwd]); each is compiled in ONE fresh fork,
        in the given order (so a list of length 1 is a pristine compilation)"""
        _send(self.p.stdin.fileno(), list(reqs))
        res = _recv(self.p.stdout.fileno())
        if isinstance(res, dict) and "error" in res:
            raise RuntimeError("pristine server: " + res["error"])
        return res

    def compile_one(self, src, optimize=False, wasm=False):
        return self.compile_many([(src, optimize, wasm)])[0]

    def close(self):
        try:
            _send(self.p.stdin.fileno(), None)
            self.p.stdin.close()
            self.p.wait(timeout=10)
        except Exception:
            self.p.kill()


if __name__ == "__main__":
    serve()
