"""Union of all program generators (used by the properties that range over
'every accepted program': C02, C05, C14, C15, C17, C18)."""
from hypothesis import strategies as st

from . import gen, genx


def any_case(n_inputs=3, loose=True):
    parts = [gen.core_case(n_inputs=n_inputs), gen.core_case(n_inputs=n_inputs), genx.vector_case(n_inputs=n_inputs),
             genx.calls_case(n_inputs=n_inputs), opt_shapes_case(n_inputs=n_inputs)]
    if loose:
        try:
            from . import genloose
            parts.append(genloose.loose_case(n_inputs=n_inputs))
            parts.append(genloose.loose_case(n_inputs=n_inputs))
        except ImportError:
            pass
    return st.one_of(*parts)


@st.composite
def opt_shapes_case(draw, n_inputs=3):
    """Programs dense in store-then-load pairs: a value is stored to a parameter /
    local / global and immediately read back by a branch predicate, a member
    access, an index, a call argument, a return or a second forwarded pair."""
    from . import model as M
    from .model import INT, FLOAT
    g = genx.GX(draw, {"storage": True, "vec": True, "calls": True, "callpct": 10,
                       "vtypes": [M.vec("float", 2), M.vec("float", 3), M.vec("int", 2)]})
    g.structs.append(("S0", [(INT, "f0"), (FLOAT, "f1")]))
    globs = [(INT, "g0"), (FLOAT, "g1"), (M.arr(INT, (3,)), "ga"), (M.struct("S0"), "gs"), (M.vec("float", 2), "gv")]
    for ty, nm in globs:
        g.globals[nm] = ty
    helper = M.Func("h0", [(INT, "p0")], INT, M.Block([M.Return(M.Bin("+", M.Var("p0", INT), M.Lit(1, INT, "1")))]), False)
    g.funcs.append(helper)
    # a void helper that writes the globals behind the caller's back
    bump = M.Func("bump", [(INT, "p0")], M.VOID, M.Block([
        M.ExprStmt(M.Assign(M.Var("g0", INT), "=", M.Bin("+", M.Var("g0", INT), M.Var("p0", INT)))),
        M.ExprStmt(M.Assign(M.Var("g1", FLOAT), "=", M.Bin("*", M.Var("g1", FLOAT), M.Lit(2.0, FLOAT, "2.0"))))]), False)
    g.funcs.append(bump)
    g.scopes = [gen.Scope()]
    params = [(INT, "p0"), (FLOAT, "p1"), (M.vec("float", 2), "p2")]
    for ty, nm in params:
        g.declare(nm, ty)
    g.ret_ty = draw(st.sampled_from([INT, FLOAT]))
    g.push()
    stmts = []
    g.declare("a0", M.arr(INT, (3,)))
    stmts.append(M.Decl(M.arr(INT, (3,)), "a0"))
    g.declare("s0", M.struct("S0"))
    stmts.append(M.Decl(M.struct("S0"), "s0"))
    if draw(st.integers(0, 9)) < 3:
        # whole-aggregate assignment followed by a write through the destination, source observed afterwards
        if draw(st.booleans()):
            stmts.append(M.ExprStmt(M.Assign(M.Var("s0", M.struct("S0")), "=", M.Var("gs", M.struct("S0")))))
            stmts.append(M.ExprStmt(M.Assign(M.Member(M.Var("s0", M.struct("S0")), "f0", INT), "=", M.Lit(7, INT, "7"))))
            stmts.append(M.ExprStmt(M.Assign(M.Var("g0", INT), "=", M.Bin("+", M.Member(M.Var("gs", M.struct("S0")), "f0", INT),
                                                                          M.Member(M.Var("s0", M.struct("S0")), "f0", INT)))))
        else:
            at = M.arr(INT, (3,))
            stmts.append(M.ExprStmt(M.Assign(M.Var("a0", at), "=", M.Var("ga", at))))
            stmts.append(M.ExprStmt(M.Assign(M.Index(M.Var("a0", at), M.Lit(1, INT, "1"), INT), "=", M.Lit(9, INT, "9"))))
            stmts.append(M.ExprStmt(M.Assign(M.Var("g0", INT), "=", M.Bin("+", M.Index(M.Var("ga", at), M.Lit(1, INT, "1"), INT),
                                                                          M.Index(M.Var("a0", at), M.Lit(1, INT, "1"), INT)))))
    if draw(st.integers(0, 9)) < 4:
        # an int-typed value stored into a float place (no conversion is written in the source) and immediately
        # used as an operand of an arithmetic operator or comparison - and the mirror image (float value, int place
        # is NOT generated: narrowing stores are outside the stated domain)
        k = draw(st.sampled_from(["newlocal", "local", "global", "param"]))
        ival = draw(st.sampled_from([M.Var("p0", INT), M.Lit(7, INT, "7"), M.Bin("+", M.Var("p0", INT), M.Lit(1, INT, "1")),
                                     M.Var("g0", INT)]))
        if k == "newlocal":
            fv = M.Var(g.fresh("c"), FLOAT)
            g.declare(fv.name, FLOAT)
            stmts.append(M.Decl(FLOAT, fv.name, ival))
        else:
            if k == "local":
                fv = M.Var(g.fresh("c"), FLOAT)
                g.declare(fv.name, FLOAT)
                stmts.append(M.Decl(FLOAT, fv.name))
            else:
                fv = M.Var("g1" if k == "global" else "p1", FLOAT)
            stmts.append(M.ExprStmt(M.Assign(fv, "=", ival)))
        two = M.Lit(2, INT, "2")
        e = draw(st.sampled_from([M.Bin("/", fv, two), M.Bin("/", two, fv) if False else M.Bin("*", fv, two), M.Bin("/", fv, M.Lit(4.0, FLOAT, "4.0")),
                                  M.Bin("-", fv, M.Lit(0.5, FLOAT, "0.5")), M.Bin("/", fv, M.Bin("+", M.Var("p0", INT), M.Lit(100, INT, "100")))]))
        stmts.append(M.ExprStmt(M.Assign(M.Var("g1", FLOAT), "=", M.Bin("+", M.Var("g1", FLOAT), e)))
                     if draw(st.booleans()) else M.ExprStmt(M.Assign(M.Var("g1", FLOAT), "=", e)))
    if draw(st.integers(0, 9)) < 3:
        # conditions that are float constants strictly between 0 and 1 (true, although they truncate to 0), written
        # literally or arriving through a just-stored variable
        v = draw(st.sampled_from([0.5, 0.25, 0.75, 0.999, 1.5, 0.0]))
        lit = M.Lit(v, FLOAT, M.spell(v, FLOAT))
        bump_g0 = lambda k: M.ExprStmt(M.Assign(M.Var("g0", INT), "=", M.Bin("+", M.Var("g0", INT), M.Lit(k, INT, str(k)))))
        if draw(st.booleans()):
            cv = M.Var(g.fresh("c"), FLOAT)
            g.declare(cv.name, FLOAT)
            stmts.append(M.Decl(FLOAT, cv.name, lit))
            cond = cv
        else:
            cond = lit
        stmts.append(M.If(cond, M.Block([bump_g0(1)]), M.Block([bump_g0(10)])))
        if draw(st.booleans()):
            k = g.fresh("n")
            g.declare(k, INT)
            stmts.append(M.Decl(INT, k, M.Lit(0, INT, "0")))
            stmts.append(M.While(cond, M.Block([M.ExprStmt(M.Assign(M.Var(k, INT), "=", M.Bin("+", M.Var(k, INT), M.Lit(1, INT, "1")))),
                                                bump_g0(100), M.If(M.Bin(">", M.Var(k, INT), M.Lit(1, INT, "1")), M.Block([M.Break()]))])))
    if draw(st.integers(0, 9)) < 3:
        # chains of float divisions / multiplications whose regrouping changes the last bit
        fl = lambda v: M.Lit(v, FLOAT, M.spell(v, FLOAT))
        x = draw(st.sampled_from([M.Var("p1", FLOAT), M.Var("g1", FLOAT), fl(1.0)]))
        d1, d2 = draw(st.sampled_from([3.0, 7.0, 11.0, 0.3])), draw(st.sampled_from([11.0, 3.0, 49.0, 0.7]))
        e = draw(st.sampled_from([M.Bin("/", M.Bin("/", x, fl(d1)), fl(d2)), M.Bin("*", M.Bin("/", x, fl(d1)), fl(d2)),
                                  M.Bin("/", M.Bin("*", x, fl(d1)), fl(d2)), M.Bin("-", M.Bin("+", x, fl(d1)), fl(d2))]))
        stmts.append(M.ExprStmt(M.Assign(M.Var("g1", FLOAT), "=", e)))
    n = draw(st.integers(1, 5))
    for _ in range(n):
        # target of the store
        tk = draw(st.sampled_from(["param", "local", "global", "newlocal", "vecparam"]))
        if tk == "vecparam":
            v = M.Var(draw(st.sampled_from(["p2", "gv"])), M.vec("float", 2))
            stmts.append(M.ExprStmt(M.Assign(v, "=", g.vexpr(M.vec("float", 2), 1))))
            use = draw(st.sampled_from(["member", "index", "return-comp"]))
            comp = M.Member(v, draw(st.sampled_from(["x", "y"])), FLOAT) if use != "index" else M.Index(v, M.Lit(1, INT, "1"), FLOAT)
            if use == "return-comp":
                stmts.append(M.If(g.cond(1), M.Block([M.Return(comp if g.ret_ty == FLOAT else M.Bin("<", comp, M.Lit(1.0, FLOAT, "1.0")))])))
            else:
                stmts.append(M.ExprStmt(M.Assign(M.Var("g1", FLOAT), "=", M.Bin("+", M.Var("g1", FLOAT), comp))))
            continue
        ty = draw(st.sampled_from([INT, INT, FLOAT]))
        if tk == "param":
            var = M.Var("p0" if ty == INT else "p1", ty)
        elif tk == "global":
            var = M.Var("g0" if ty == INT else "g1", ty)
        else:
            nm = g.fresh("v")
            g.declare(nm, ty)
            var = M.Var(nm, ty)
            if tk == "newlocal":
                stmts.append(M.Decl(ty, nm, g.rhs(ty, 2) if draw(st.booleans()) else (g.cond(1) if ty == INT else g.rhs(ty, 1))))
            else:
                stmts.append(M.Decl(ty, nm))
        if tk != "newlocal":
            val = g.cond(1) if (ty == INT and draw(st.booleans())) else g.rhs(ty, 2)
            stmts.append(M.ExprStmt(M.Assign(var, "=", val)))
        # the consumer that immediately loads it again
        use = draw(st.sampled_from(["branch", "branch-else", "index", "call-arg", "return", "second-pair", "loop-cond",
                                    "field-store", "affix", "while-cond", "call-writes-it", "call-writes-it"]))
        if use == "call-writes-it":
            # store; call something that writes the same global; read it again (in the same basic block)
            gvar = M.Var("g0" if ty == INT else "g1", ty)
            stmts.append(M.ExprStmt(M.Assign(gvar, "=", var)))
            stmts.append(M.ExprStmt(M.Call("bump", [M.Lit(draw(st.integers(1, 5)), INT, None)], M.VOID, 1)))
            stmts.append(M.ExprStmt(M.Assign(var, "=", M.Bin("+", gvar, var))))
            continue
        if use in ("branch", "branch-else"):
            body = M.Block([g.assign_stmt() or M.ExprStmt(M.Assign(M.Var("g0", INT), "=", M.Lit(1, INT, "1")))])
            els = M.Block([M.ExprStmt(M.Assign(M.Var("g0", INT), "=", M.Lit(2, INT, "2")))]) if use == "branch-else" else None
            stmts.append(M.If(var, body, els))
        elif use == "index" and ty == INT:
            stmts.append(M.ExprStmt(M.Assign(var, "=", M.Bin("%", M.Bin("*", var, var), M.Lit(3, INT, "3")))))
            stmts.append(M.ExprStmt(M.Assign(M.Var("g0", INT), "=", M.Index(M.Var("ga", M.arr(INT, (3,))), var, INT))))
        elif use == "call-arg" and ty == INT:
            stmts.append(M.ExprStmt(M.Assign(M.Var("g0", INT), "=", M.Call("h0", [var], INT, 0))))
        elif use == "return":
            stmts.append(M.If(g.cond(1), M.Block([M.Return(var if ty == g.ret_ty or (ty == INT and g.ret_ty == FLOAT) else g.rhs(g.ret_ty, 1))])))
        elif use == "second-pair":
            other = M.Var("g0" if ty == INT else "g1", ty)
            stmts.append(M.ExprStmt(M.Assign(other, "=", var)))
            stmts.append(M.ExprStmt(M.Assign(var, "=", M.Bin("+", other, var))))
        elif use == "loop-cond" and ty == INT:
            i = g.fresh("i")
            stmts.append(M.For(M.Decl(INT, i, M.Lit(0, INT, "0")), M.Bin("<", M.Var(i, INT), M.Lit(2, INT, "2")),
                               M.Affix("++", M.Var(i, INT), True),
                               M.Block([M.ExprStmt(M.Assign(var, "=", M.Bin("+", var, M.Var(i, INT)))),
                                        M.If(var, M.Block([M.ExprStmt(M.Assign(M.Var("g0", INT), "+=", M.Lit(1, INT, "1")))]))])))
        elif use == "field-store":
            fld = M.Member(M.Var(draw(st.sampled_from(["s0", "gs"])), M.struct("S0")), "f0" if ty == INT else "f1", ty)
            stmts.append(M.ExprStmt(M.Assign(fld, "=", var)))
            stmts.append(M.ExprStmt(M.Assign(var, "=", M.Bin("+", fld, var))))
        elif use == "affix" and tk != "newlocal":
            stmts.append(M.ExprStmt(M.Affix(draw(st.sampled_from(["++", "--"])), var, draw(st.booleans()))))
        elif use == "while-cond" and ty == INT:
            k = g.fresh("n")
            g.declare(k, INT)
            stmts.append(M.Decl(INT, k, M.Lit(2, INT, "2")))
            stmts.append(M.While(M.Bin(">", M.Var(k, INT), M.Lit(0, INT, "0")),
                                 M.Block([M.ExprStmt(M.Assign(M.Var(k, INT), "=", M.Bin("-", M.Var(k, INT), M.Lit(1, INT, "1")))),
                                          M.ExprStmt(M.Assign(var, "=", M.Bin("<", var, M.Var(k, INT)))),
                                          M.If(var, M.Continue())])))
        else:
            stmts.append(M.ExprStmt(M.Assign(M.Var("g1", FLOAT), "=", M.Bin("+", M.Var("g1", FLOAT), var))))
    stmts.append(M.Return(g.rhs(g.ret_ty, 2)))
    g.pop()
    f = M.Func("f", params, g.ret_ty, M.Block(stmts), True)
    prog = M.Program(g.structs, globs, [helper, bump, f])
    inputs = []
    for _ in range(n_inputs):
        args = {nm: draw(gen.value_of(ty, prog)) for ty, nm in params}
        gl = {nm: draw(gen.value_of(ty, prog)) for ty, nm in globs}
        inputs.append((args, gl))
    return gen.Case(prog, "f", inputs, draw(st.sampled_from(["full", "min"])), note="opt-shapes")
