"""Tiers, seeds, sharding over processes, evidence, replay files, known findings,
VIOLATION / KNOWN-FINDING lines and exit codes.  See DESIGN.md section 2."""
import base64
import collections
import fnmatch
import gc
import hashlib
import json
import multiprocessing
import os
import pickle
import signal
import sys
import time
import traceback

HERE = os.path.dirname(os.path.dirname(os.path.abspath(__file__)))
# the two overrides are used only by tools/mutant_run.sh (sensitivity runs must not
# overwrite the evidence of the real tree)
EVIDENCE_DIR = os.environ.get("VERIF_EVIDENCE_DIR") or os.path.join(HERE, "evidence")
REPLAY_DIR = os.environ.get("VERIF_REPLAY_DIR") or os.path.join(HERE, "replays")
FINDINGS_DIR = os.path.join(HERE, "findings")
REGRESS_DIR = os.path.join(HERE, "regressions")  # saved shrunk failures of repaired defects, replayed on every run
KNOWN_FILE = os.path.join(HERE, "known_findings.json")

NCPU = min(16, os.cpu_count() or 1)
CASE_TIMEOUT = 120  # seconds; expiry = inconclusive (exit 2), never a violation
SHRINK_CALLS = 400  # re-executions Hypothesis' shrinker may spend per failure
MAX_ROUNDS = 4  # distinct unlisted signatures a worker keeps searching past
_ITEMS = {}  # per-process cache of enumerated item lists


class Violation(Exception):
    def __init__(self, sig, detail="", case=None):
        super().__init__(sig)
        self.sig = sig
        self.detail = detail
        self.case = case


class HarnessAbort(BaseException):
    pass


class CaseTimeout(BaseException):
    pass


def _h(obj):
    if not isinstance(obj, (bytes, bytearray)):
        obj = repr(obj).encode("utf-8", "replace")
    return hashlib.blake2b(obj, digest_size=8).digest()


def derive_seed(*parts):
    s = ":".join(str(p) for p in parts).encode()
    return int.from_bytes(hashlib.sha256(s).digest()[:4], "big")


class Stats:
    def __init__(self):
        self.evaluations = 0
        self.nontrivial = set()
        self.classes = collections.Counter()
        self.discards = collections.Counter()
        self.samples = []
        self.known_hits = collections.Counter()
        self.failures = []  # dicts: sig, detail, case(pickle b64), shown
        self.errors = []  # harness errors (strings)
        self.timeouts = 0

    def merge(self, o):
        self.evaluations += o.evaluations
        self.nontrivial |= o.nontrivial
        self.classes.update(o.classes)
        self.discards.update(o.discards)
        for s in o.samples:
            if len(self.samples) < 8:
                self.samples.append(s)
        self.known_hits.update(o.known_hits)
        self.failures.extend(o.failures)
        self.errors.extend(o.errors)
        self.timeouts += o.timeouts


class Ctx:
    """Handed to every property body; collects coverage and failures."""

    def __init__(self, stats, is_known, max_samples=3):
        self.s = stats
        self.is_known = is_known
        self.frozen = False
        self.max_samples = max_samples
        self._case_nt = False

    def count(self, n=1):
        if not self.frozen:
            self.s.evaluations += n

    def label(self, name, n=1):
        if not self.frozen:
            self.s.classes[name] += n

    def nontrivial(self, key):
        if not self.frozen:
            self.s.nontrivial.add(_h(key))

    def discard(self, reason):
        if not self.frozen:
            self.s.discards[reason] += 1

    def sample(self, obj):
        if not self.frozen and len(self.s.samples) < self.max_samples:
            self.s.samples.append(obj)

    def want_sample(self):
        return (not self.frozen) and len(self.s.samples) < self.max_samples

    def fail(self, sig, detail="", case=None):
        """Report a violation.  Listed known findings are counted and the
        search goes on; anything else raises."""
        k = self.is_known(sig)
        if k is not None:
            if not self.frozen:
                self.s.known_hits[k] += 1
            return
        raise Violation(sig, detail, case)


def _pack(case):
    try:
        return base64.b64encode(pickle.dumps(case, protocol=4)).decode()
    except Exception:
        return None


def _unpack(s):
    return pickle.loads(base64.b64decode(s))


def _show(case, limit=6000):
    f = getattr(case, "show", None)
    try:
        txt = f() if callable(f) else (case if isinstance(case, str) else repr(case))
    except Exception as e:  # pragma: no cover
        txt = "<unprintable %r>" % (e,)
    return txt if len(txt) <= limit else txt[:limit] + "..."


class _Alarm:
    def __enter__(self):
        def onalarm(signum, frame):
            raise CaseTimeout()
        self.old = signal.signal(signal.SIGALRM, onalarm)
        signal.alarm(CASE_TIMEOUT)

    def __exit__(self, *a):
        signal.alarm(0)
        signal.signal(signal.SIGALRM, self.old)
        return False


# --------------------------------------------------------------------------
# worker side
#
# Copy-on-write page faults are very expensive on this kind of VM when 16
# children take them at once, so the pool is forked *before* anything heavy is
# imported (tiny parent heap); each worker imports hypothesis / nsl / the check
# module itself and then re-runs the check's `run(R)` in "worker mode", in which
# only the addressed part executes its share of the work.

_POOL = None


class _WorkerDone(BaseException):
    pass


def start_pool():
    global _POOL
    if _POOL is None and not os.environ.get("VERIF_NOFORK"):
        mp = multiprocessing.get_context("fork")
        _POOL = mp.Pool(NCPU)
    return _POOL


def stop_pool():
    global _POOL
    if _POOL is not None:
        _POOL.terminate()
        _POOL.join()
        _POOL = None


def _tramp(fn, arg):
    return fn(arg)


# CPython 3.12 keeps interpreter frames in 16 KiB "data stack" chunks that are
# mmap()ed / munmap()ed whenever the call depth crosses a chunk boundary; deep
# visitor recursion does that ~80 times per compile, and 16 processes taking
# those page faults at once run 6x slower on this VM.  A frame that claims a
# very large evaluation stack forces one big chunk; everything called from it
# lives in the remainder of that chunk.
_tramp.__code__ = _tramp.__code__.replace(co_stacksize=1_100_000)


def big_frame(fn, arg=None):
    return _tramp(fn, arg)


def _task(spec):
    return _tramp(_task_inner, spec)


def _task_inner(spec):
    """Runs in a pool worker: (prop, tier, seed, part, shard, nshards)."""
    prop, tier, seed, part, shard, nshards = spec
    import importlib
    try:
        mod = importlib.import_module("vf.checks." + prop.lower())
        R = Runner(prop, tier, seed, worker=(part, shard, nshards))
        try:
            mod.run(R)
        except _WorkerDone:
            pass
        if R.worker_result is None:
            st = Stats()
            st.errors.append("worker: part %r not reached in run()" % part)
            return st
        return R.worker_result
    except BaseException as e:  # noqa
        st = Stats()
        st.errors.append("worker crashed: %s\n%s" % (e, traceback.format_exc(limit=12)))
        return st


def _map_tasks(specs):
    if _POOL is None:
        return [_task(s) for s in specs]
    return _POOL.map(_task, specs, chunksize=1)


def _run_case(ctx, fn, case, stats):
    """Run one case; returns None or a Violation (unlisted)."""
    try:
        with _Alarm():
            fn(ctx, case)
    except Violation as v:
        if v.case is None:
            v.case = case
        return v
    except CaseTimeout:
        stats.timeouts += 1
        stats.errors.append("watchdog (%ds) fired in case:\n%s\ncase: %s" % (
            CASE_TIMEOUT, traceback.format_exc(limit=25), _show(case, 3000)))
        return None
    except (KeyboardInterrupt, SystemExit, HarnessAbort):
        raise
    except BaseException as e:
        if type(e).__module__.startswith("hypothesis"):
            raise
        stats.errors.append("harness error in case:\n%s\ncase: %s" % (
            traceback.format_exc(limit=12), _show(case, 1500)))
        raise HarnessAbort()
    return None


def _failure_record(v):
    return {"sig": v.sig, "detail": v.detail, "shown": _show(v.case),
            "case": _pack(v.case)}


def _hyp_body(job, k):
    from hypothesis import HealthCheck, Phase, given, seed, settings

    stats = Stats()
    ignored = set()
    n = job["examples"]
    base_seed = derive_seed(job["verif_seed"], job["prop"], job["part"], k)
    final = None
    for rnd in range(MAX_ROUNDS + 1):
        st = Stats()

        def is_known(sig, _ign=ignored):
            if sig in _ign:
                return "(pinned)" + sig
            return job["is_known"](sig)

        ctx = Ctx(st, is_known)
        last = [None]

        def body(case):
            if ctx.frozen:
                # shrinking: bounded number of re-executions, then every
                # candidate "passes" so the shrinker stops at the best so far
                hyp_calls[0] += 1
                if hyp_calls[0] > SHRINK_CALLS:
                    return
            v = _run_case(ctx, job["fn"], case, st)
            if v is not None:
                ctx.frozen = True
                if last[0] is None or len(_show(v.case)) <= len(_show(last[0].case)):
                    last[0] = v
                raise v

        hyp_calls = [0]
        phases = [Phase.generate, Phase.shrink] if job["shrink"] == "hyp" else [Phase.generate]
        test = seed(base_seed)(settings(
            max_examples=n, database=None, deadline=None, derandomize=False,
            report_multiple_bugs=False, phases=phases,
            suppress_health_check=[HealthCheck.too_slow, HealthCheck.data_too_large,
                                   HealthCheck.large_base_example],
        )(given(job["strategy"])(body)))
        try:
            test()
            final = st
            break
        except BaseException as e:
            if last[0] is None:
                if isinstance(e, HarnessAbort):
                    stats.errors.extend(st.errors)
                else:
                    stats.errors.append("hypothesis/harness error: %s\n%s" % (
                        e, traceback.format_exc(limit=10)))
                final = st
                break
            v = last[0]
            if job["shrink"] == "ast":
                v = _ast_shrink(job, v)
            stats.failures.append(_failure_record(v))
            ignored.add(v.sig)
            final = st
            if rnd == MAX_ROUNDS:
                break
            continue
    if final is not None:
        final.errors = [e for e in final.errors if e.startswith("watchdog")]
        # known hits pinned in later rounds are unlisted failures already recorded
        for key in list(final.known_hits):
            if key.startswith("(pinned)"):
                del final.known_hits[key]
        stats.merge(final)
    return stats


def _ast_shrink(job, v):
    from . import shrink as _shrink
    sig = v.sig
    found = {}

    def fails(c):
        ctx = Ctx(Stats(), lambda s: None)
        ctx.frozen = True
        try:
            with _Alarm():
                job["fn"](ctx, c)
        except Violation as v2:
            if v2.sig == sig:
                found[id(c)] = v2
                return True
        except CaseTimeout:
            return False
        return False

    try:
        best = _shrink.shrink_case(v.case, fails, budget=job.get("shrink_budget", 300))
    except Exception:
        return v
    if best is v.case:
        return v
    v2 = found.get(id(best))
    if v2 is None:
        return v
    v2.case = best
    return v2


def _enum_body(job, chunk):
    stats = Stats()
    ctx = Ctx(stats, job["is_known"])
    seen = set()
    for item in chunk:
        ctx.frozen = False
        try:
            v = _run_case(ctx, job["fn"], item, stats)
        except HarnessAbort:
            break
        if v is not None and v.sig not in seen:
            seen.add(v.sig)
            stats.failures.append(_failure_record(v))
    return stats


def _custom_body(job, k):
    stats = Stats()
    ctx = Ctx(stats, job["is_known"], max_samples=2)
    try:
        job["fn"](k, ctx)
    except Violation as v:
        stats.failures.append(_failure_record(v))
    except HarnessAbort:
        pass
    except BaseException as e:
        stats.errors.append("custom worker error: %s\n%s" % (e, traceback.format_exc(limit=10)))
    return stats


# --------------------------------------------------------------------------
# parent side


class Runner:
    def __init__(self, prop, tier, seed, level="exploration", replay=None, worker=None):
        self.prop = prop
        self.tier = tier
        self.seed = seed
        self.level = level
        self.t0 = time.time()
        self.parts = collections.OrderedDict()
        self.rule = ""
        self.assumptions = []
        self.extra = {}
        self.exhaustive_parts = []
        self.replay = replay  # (part, case) or None
        self.replay_result = None
        self.replay_path = None
        self.worker = worker  # (part, shard, nshards) in a pool worker
        self.worker_result = None
        self.required = []
        self.known = [k for k in load_known() if k.get("property") == prop]
        self._is_known = self._make_is_known()

    # -- known findings ----------------------------------------------------
    def _make_is_known(self):
        pats = [(k["signature"], k["signature"]) for k in self.known
                if k.get("status", "known") == "known"]

        def is_known(sig):
            for pat, key in pats:
                if sig == pat or fnmatch.fnmatchcase(sig, pat):
                    return key
            return None
        return is_known

    @property
    def quick(self):
        return self.tier == "quick"

    @property
    def in_worker(self):
        return self.worker is not None

    def pick(self, quick, thorough):
        return quick if self.quick else thorough

    # -- parts -----------------------------------------------------------
    def _part(self, name):
        if name not in self.parts:
            self.parts[name] = Stats()
        return self.parts[name]

    def _replaying(self, name, fn):
        if self.replay is None:
            return False
        part, case = self.replay
        if part == name:
            st = Stats()
            ctx = Ctx(st, lambda sig: None)
            try:
                fn(ctx, case)
                self.replay_result = ("pass", None)
            except Violation as v:
                self.replay_result = ("fail", v)
        return True

    def _specs(self, name, n):
        return [(self.prop, self.tier, self.seed, name, k, n) for k in range(n)]

    def _collect(self, name, results):
        p = self._part(name)
        for r in results:
            p.merge(r)

    def _regress(self, name, fn):
        """Replay tier: every saved case that once exposed a defect (a repaired one, or a seeded change) in this
        part is executed directly (no Hypothesis).  It must pass now; if the defect returns it fails in seconds.
        A saved case the current code can no longer run (generators evolve) is counted and skipped."""
        import glob
        st = None
        for path in sorted(glob.glob(os.path.join(REGRESS_DIR, "%s-*.json" % self.prop))):
            try:
                with open(path) as fh:
                    d = json.load(fh)
                if d.get("part") != name:
                    continue
                case = _unpack(d["case_pickle"])
            except Exception:
                self._part(name).classes["regression-file-unusable"] += 1
                continue
            st = self._part(name)
            ctx = Ctx(st, self._is_known)
            scratch = Stats()
            v = None
            try:
                v = _run_case(ctx, fn, case, scratch)
            except HarnessAbort:
                st.classes["regression-file-unusable"] += 1
                continue
            if scratch.timeouts:
                st.classes["regression-file-unusable"] += 1
                continue
            st.classes["regression-replayed"] += 1
            if v is not None:
                st.failures.append(_failure_record(v))

    def hyp(self, name, strategy, fn, examples, workers=None, shrink="hyp"):
        """Run `fn(ctx, case)` on `examples` generated cases per worker."""
        if self._replaying(name, fn):
            return
        if not self.in_worker:
            self._regress(name, fn)
        workers = workers or NCPU
        if self.in_worker:
            if self.worker[0] != name:
                return
            if callable(strategy) and not hasattr(strategy, "example"):
                strategy = strategy()
            job = dict(prop=self.prop, part=name, strategy=strategy, fn=fn, examples=examples,
                       verif_seed=self.seed, is_known=self._is_known, shrink=shrink,
                       shrink_budget=300 if self.quick else 1200)
            self.worker_result = _hyp_body(job, self.worker[1])
            raise _WorkerDone()
        self._collect(name, _map_tasks(self._specs(name, workers)))

    def enum(self, name, items, fn, exhaustive=True, chunks=None):
        """Run `fn(ctx, item)` on every item of a finite list (or a callable
        returning one; it is only called where the list is needed)."""
        if self._replaying(name, fn):
            return
        if not self.in_worker:
            self._regress(name, fn)
        if self.in_worker:
            if self.worker[0] != name:
                return
            key = (self.prop, self.tier, name)
            if key not in _ITEMS:
                _ITEMS.clear()
                _ITEMS[key] = list(items() if callable(items) else items)
            allitems = _ITEMS[key]
            _, shard, n = self.worker
            job = dict(fn=fn, is_known=self._is_known)
            self.worker_result = _enum_body(job, allitems[shard::n])
            raise _WorkerDone()
        nch = chunks or (NCPU * 4)
        self._collect(name, _map_tasks(self._specs(name, nch)))
        if exhaustive:
            self.exhaustive_parts.append(name)

    def custom(self, name, worker_fn, nworkers, exhaustive=False):
        """worker_fn(k, ctx) runs in a pool worker with its own Ctx/Stats."""
        if self.replay is not None:
            return
        if self.in_worker:
            if self.worker[0] != name:
                return
            job = dict(fn=worker_fn, is_known=self._is_known)
            self.worker_result = _custom_body(job, self.worker[1])
            raise _WorkerDone()
        self._collect(name, _map_tasks(self._specs(name, nworkers)))
        if exhaustive:
            self.exhaustive_parts.append(name)

    def require(self, label, minimum=1):
        """An empty important class is a generator regression (exit 2)."""
        self.required.append((label, minimum))

    # -- finishing --------------------------------------------------------
    def finish(self):
        if self.replay is not None:
            return self._finish_replay()
        total = Stats()
        for name, p in self.parts.items():
            for s in p.samples[:3]:
                if len(total.samples) < 12:
                    total.samples.append({"part": name, "case": s})
            samples = total.samples
            total.merge(p)
            total.samples = samples
        wall = time.time() - self.t0
        # failures by signature
        by_sig = collections.OrderedDict()
        for name, p in self.parts.items():
            for f in p.failures:
                f = dict(f, part=name)
                cur = by_sig.get(f["sig"])
                if cur is None or len(f["shown"]) < len(cur["shown"]):
                    by_sig[f["sig"]] = f
        os.makedirs(REPLAY_DIR, exist_ok=True)
        lines = []
        viol_records = []
        for sig, f in by_sig.items():
            hh = hashlib.sha1((sig + f["shown"]).encode("utf-8", "replace")).hexdigest()[:10]
            path = os.path.join(REPLAY_DIR, "%s-%s-%s.json" % (self.prop, f["part"], hh))
            with open(path, "w") as fh:
                json.dump({"property": self.prop, "part": f["part"], "signature": sig,
                           "detail": f["detail"], "case_shown": f["shown"],
                           "case_pickle": f["case"], "seed": self.seed, "tier": self.tier},
                          fh, indent=1)
            lines.append("VIOLATION property=%s replay=%s" % (self.prop, path))
            viol_records.append({"signature": sig, "detail": f["detail"][:2000],
                                 "case": f["shown"][:3000], "replay": path})
        known_hit = []
        for k in self.known:
            if k.get("status", "known") != "known":
                continue
            n = total.known_hits.get(k["signature"], 0)
            if n:
                known_hit.append({"signature": k["signature"], "hits": n})
                print("KNOWN-FINDING: property=%s %s :: %s" % (
                    self.prop, k["signature"], k.get("what", "")))
        missing = [(l, m, total.classes.get(l, 0)) for (l, m) in self.required
                   if total.classes.get(l, 0) < m]
        harness_bad = bool(total.errors) or total.timeouts > 0 or bool(missing)
        cov = {
            "evaluations": total.evaluations,
            "distinct_nontrivial": len(total.nontrivial),
            "rule": self.rule,
            "samples": total.samples if total.samples else ["<none>"],
            "classes": dict(sorted(total.classes.items())),
            "discarded": dict(sorted(total.discards.items())),
            "known_findings_hit": known_hit,
            "parts": {n: {"evaluations": p.evaluations,
                          "distinct_nontrivial": len(p.nontrivial)}
                      for n, p in self.parts.items()},
            "exhaustive": bool(self.exhaustive_parts) and
            set(self.exhaustive_parts) == set(self.parts),
            "exhaustive_parts": self.exhaustive_parts,
            "violation_records": viol_records,
            "timeouts": total.timeouts,
            "harness_errors": [e[:2000] for e in total.errors[:5]],
        }
        cov.update(self.extra)
        ev = {
            "property_id": self.prop, "tier": self.tier, "seed": self.seed,
            "level": self.level, "coverage": cov, "assumptions": self.assumptions,
            "wall_s": round(wall, 2), "violations": len(by_sig),
        }
        os.makedirs(EVIDENCE_DIR, exist_ok=True)
        with open(os.path.join(EVIDENCE_DIR, self.prop + ".json"), "w") as fh:
            json.dump(ev, fh, indent=1, default=str)
        print("%s %s seed=%d: evaluations=%d distinct_nontrivial=%d violations=%d "
              "known_hits=%d wall=%.1fs" % (
                  self.prop, self.tier, self.seed, total.evaluations,
                  len(total.nontrivial), len(by_sig),
                  sum(total.known_hits.values()), wall))
        for name, p in self.parts.items():
            print("  part %-22s evals=%-8d nontrivial=%-8d discards=%d" % (
                name, p.evaluations, len(p.nontrivial), sum(p.discards.values())))
        for l in lines:
            print(l)
        sys.stdout.flush()
        if by_sig:
            return 1
        if harness_bad:
            for e in total.errors[:3]:
                print("HARNESS-ERROR:", e, file=sys.stderr)
            if total.timeouts:
                print("HARNESS-ERROR: %d case(s) hit the %ds watchdog (inconclusive)" % (
                    total.timeouts, CASE_TIMEOUT), file=sys.stderr)
            for (l, m, got) in missing:
                print("HARNESS-ERROR: generator regression: class %r seen %d < %d" % (
                    l, got, m), file=sys.stderr)
            return 2
        return 0

    def _finish_replay(self):
        if self.replay_result is None:
            print("replay: part %r not found" % (self.replay[0],), file=sys.stderr)
            return 2
        kind, v = self.replay_result
        if kind == "pass":
            print("replay: case passes (property holds on it)")
            return 0
        print("replay: FAILS sig=%s\n%s" % (v.sig, v.detail))
        print("VIOLATION property=%s replay=%s" % (self.prop, self.replay_path))
        return 1


def load_known():
    if not os.path.exists(KNOWN_FILE):
        return []
    with open(KNOWN_FILE) as fh:
        data = json.load(fh)
    return data.get("findings", [])


def load_replay(path):
    with open(path) as fh:
        d = json.load(fh)
    return d["part"], _unpack(d["case_pickle"]), d
