"""Independent expression parser (precedence climbing) over vf.model tokens, and
a converter from nsl AST expressions to the same plain tuple trees.

Tree forms:  name (str) | ("lit", value) | (op, left, right) | ("=", op, target, value)
             ("call", name, [args]) | ("idx", base, index) | ("mem", base, field)
             ("pre"/"post", "++"/"--", name)
The precedence levels are the ones given in the C08 statement (loosest first):
||, &&, == !=, < <= > >=, + -, * / %; all left associative; an assignment's
right-hand side is the whole following expression; parentheses override."""
from . import model as M

LEVEL = dict(M.PREC)
ASSIGN_OPS = ("=", "+=", "-=", "*=", "/=")


class ParseError(Exception):
    pass


class _P:
    def __init__(self, toks):
        self.t = list(toks)
        self.i = 0

    def peek(self):
        return self.t[self.i] if self.i < len(self.t) else None

    def next(self):
        tk = self.peek()
        if tk is None:
            raise ParseError("unexpected end")
        self.i += 1
        return tk

    def expect(self, tk):
        got = self.next()
        if got != tk:
            raise ParseError("expected %r got %r" % (tk, got))

    def expression(self):
        left = self.binary(0)
        if self.peek() in ASSIGN_OPS:
            op = self.next()
            right = self.expression()
            return ("=", op, left, right)
        return left

    def binary(self, minlevel):
        left = self.unary()
        while True:
            tk = self.peek()
            if tk in LEVEL and LEVEL[tk] > minlevel:
                self.next()
                # operand of the same level groups to the left: parse the right
                # side at a strictly higher level
                right = self.binary(LEVEL[tk])
                left = (tk, left, right)
            else:
                return left

    def unary(self):
        tk = self.next()
        if tk in ("++", "--"):
            name = self.next()
            return ("pre", tk, name)
        if tk == "(":
            e = self.expression()
            self.expect(")")
            return e
        if tk[0].isdigit() or tk[0] == "." or (tk[0] in "+-" and len(tk) > 1):
            return ("lit", literal_value(tk))
        if not (tk[0].isalpha() or tk[0] == "_"):
            raise ParseError("unexpected token %r" % tk)
        node = tk
        while True:
            nx = self.peek()
            if nx == "(" and isinstance(node, str):
                self.next()
                args = []
                if self.peek() != ")":
                    args.append(self.expression())
                    while self.peek() == ",":
                        self.next()
                        args.append(self.expression())
                self.expect(")")
                node = ("call", node, args)
            elif nx == "[":
                self.next()
                idx = self.expression()
                self.expect("]")
                node = ("idx", node, idx)
            elif nx == ".":
                self.next()
                node = ("mem", node, self.next())
            elif nx in ("++", "--") and isinstance(node, str):
                self.next()
                node = ("post", nx, node)
            else:
                return node


def literal_value(tk):
    low = tk.lower()
    if low.startswith("0x"):
        return int(tk[2:], 16)
    if any(c in low for c in ".e") or low.endswith("f"):
        return float(low[:-1] if low.endswith("f") else low)
    if len(tk) > 1 and tk[0] == "0":
        return int(tk, 8)
    return int(tk)


def parse_tokens(toks):
    p = _P(toks)
    e = p.expression()
    if p.peek() is not None:
        raise ParseError("trailing tokens %r" % (p.t[p.i:],))
    return e


def right_nested(toks):
    """what a precedence-blind right-recursive parse of a flat chain gives"""
    if len(toks) == 1:
        return toks[0]
    return (toks[1], toks[0], right_nested(toks[2:]))


# ---------------------------------------------------------------------------
# nsl AST -> tuple tree (public accessors only)

def from_nsl(e):
    from nsl import ast, op
    if isinstance(e, ast.AssignmentExpression):
        return ("=", op.OpToStr(e.GetOperation()), from_nsl(e.GetLeft()), from_nsl(e.GetRight()))
    if isinstance(e, ast.BinaryExpression):
        return (op.OpToStr(e.GetOperation()), from_nsl(e.GetLeft()), from_nsl(e.GetRight()))
    if isinstance(e, ast.LiteralExpression):
        return ("lit", e.GetValue())
    if isinstance(e, ast.AffixExpression):
        return ("pre" if e.IsPrefix() else "post",
                "++" if e.GetOperation() == op.Operation.ADD else "--",
                from_nsl(e.GetExpression()))
    if isinstance(e, ast.CallExpression):
        return ("call", e.GetFunction().GetName(), [from_nsl(a) for a in e.GetArguments()])
    if isinstance(e, ast.ArrayExpression):
        return ("idx", from_nsl(e.GetParent()), from_nsl(e.GetExpression()))
    if isinstance(e, ast.MemberAccessExpression):
        return ("mem", from_nsl(e.GetParent()), e.GetMember().GetName())
    if isinstance(e, ast.PrimaryExpression):
        return e.GetName()
    if isinstance(e, ast.ConstructPrimitiveExpression):
        return ("call", e.GetType().GetName(), [from_nsl(a) for a in e.GetArguments()])
    return ("?", type(e).__name__)


def show(t):
    if isinstance(t, str):
        return t
    if t[0] == "lit":
        return repr(t[1])
    if t[0] == "=":
        return "(%s %s %s)" % (show(t[2]), t[1], show(t[3]))
    if t[0] == "call":
        return "%s(%s)" % (t[1], ", ".join(show(a) for a in t[2]))
    if t[0] == "idx":
        return "%s[%s]" % (show(t[1]), show(t[2]))
    if t[0] == "mem":
        return "%s.%s" % (show(t[1]), t[2])
    if t[0] == "pre":
        return "%s%s" % (t[1], show(t[2]))
    if t[0] == "post":
        return "%s%s" % (show(t[2]), t[1])
    if len(t) == 3:
        return "(%s %s %s)" % (show(t[1]), t[0], show(t[2]))
    return repr(t)
