"""Independent WebAssembly 1.0 (MVP) binary decoder, validator and a small
interpreter for straight-line numeric code.  Written from the specification,
shares nothing with nsl.WebAssembly."""
import math
import struct

I32, I64, F32, F64 = 0x7F, 0x7E, 0x7D, 0x7C
VALTYPES = {I32: "i32", I64: "i64", F32: "f32", F64: "f64"}


class Malformed(Exception):
    pass


class Invalid(Exception):
    pass


class Reader:
    def __init__(self, data, pos=0, end=None):
        self.d = data
        self.p = pos
        self.end = len(data) if end is None else end

    def eof(self):
        return self.p >= self.end

    def byte(self):
        if self.p >= self.end:
            raise Malformed("unexpected end")
        b = self.d[self.p]
        self.p += 1
        return b

    def take(self, n):
        if self.p + n > self.end:
            raise Malformed("unexpected end")
        b = self.d[self.p:self.p + n]
        self.p += n
        return bytes(b)

    def uleb(self, bits=32):
        result = 0
        shift = 0
        n = 0
        maxbytes = (bits + 6) // 7
        while True:
            b = self.byte()
            n += 1
            if n > maxbytes:
                raise Malformed("integer representation too long")
            if n == maxbytes:
                # unused upper bits of the final byte must be zero
                used = bits - 7 * (maxbytes - 1)
                if b & 0x80:
                    raise Malformed("integer representation too long")
                if (b & 0x7F) >> used:
                    raise Malformed("integer too large")
            result |= (b & 0x7F) << shift
            shift += 7
            if not (b & 0x80):
                break
        return result

    def sleb(self, bits=32):
        result = 0
        shift = 0
        n = 0
        maxbytes = (bits + 6) // 7
        while True:
            b = self.byte()
            n += 1
            if n > maxbytes:
                raise Malformed("integer representation too long")
            if n == maxbytes:
                if b & 0x80:
                    raise Malformed("integer representation too long")
                used = bits - 7 * (maxbytes - 1)  # payload bits that matter
                top = (b & 0x7F) >> (used - 1)  # sign bit and the bits above it
                allones = (1 << (7 - used + 1)) - 1
                if top != 0 and top != allones:
                    raise Malformed("integer too large")
            result |= (b & 0x7F) << shift
            shift += 7
            if not (b & 0x80):
                if b & 0x40:
                    result -= 1 << shift
                break
        return result

    def name(self):
        n = self.uleb()
        raw = self.take(n)
        try:
            return raw.decode("utf-8")
        except UnicodeDecodeError:
            raise Malformed("malformed UTF-8 encoding")

    def valtype(self):
        b = self.byte()
        if b not in VALTYPES:
            raise Malformed("malformed value type 0x%02x" % b)
        return b

    def limits(self):
        flag = self.byte()
        if flag == 0:
            return (self.uleb(), None)
        if flag == 1:
            return (self.uleb(), self.uleb())
        raise Malformed("malformed limits flag")


def uleb_decode_all(b, bits=32):
    r = Reader(b)
    v = r.uleb(bits)
    if not r.eof():
        raise Malformed("trailing bytes after ULEB128")
    return v


def sleb_decode_all(b, bits=32):
    r = Reader(b)
    v = r.sleb(bits)
    if not r.eof():
        raise Malformed("trailing bytes after SLEB128")
    return v


# --------------------------------------------------------------------------
# instruction table: opcode -> (mnemonic, immediates, params, results)
# immediates: '' none, 'bt' blocktype, 'l' label, 'lv' br_table, 'f' funcidx,
# 'ci' call_indirect, 'x' localidx, 'g' globalidx, 'm' memarg, 'z' 0x00 byte,
# 'i32','i64','f32','f64' constants

def _num_table():
    t = {}

    def add(op, name, params, results):
        t[op] = (name, "", params, results)

    add(0x45, "i32.eqz", [I32], [I32])
    for i, n in enumerate(["eq", "ne", "lt_s", "lt_u", "gt_s", "gt_u", "le_s", "le_u", "ge_s", "ge_u"]):
        add(0x46 + i, "i32." + n, [I32, I32], [I32])
    add(0x50, "i64.eqz", [I64], [I32])
    for i, n in enumerate(["eq", "ne", "lt_s", "lt_u", "gt_s", "gt_u", "le_s", "le_u", "ge_s", "ge_u"]):
        add(0x51 + i, "i64." + n, [I64, I64], [I32])
    for i, n in enumerate(["eq", "ne", "lt", "gt", "le", "ge"]):
        add(0x5B + i, "f32." + n, [F32, F32], [I32])
    for i, n in enumerate(["eq", "ne", "lt", "gt", "le", "ge"]):
        add(0x61 + i, "f64." + n, [F64, F64], [I32])
    for i, n in enumerate(["clz", "ctz", "popcnt"]):
        add(0x67 + i, "i32." + n, [I32], [I32])
    for i, n in enumerate(["add", "sub", "mul", "div_s", "div_u", "rem_s", "rem_u", "and", "or",
                           "xor", "shl", "shr_s", "shr_u", "rotl", "rotr"]):
        add(0x6A + i, "i32." + n, [I32, I32], [I32])
    for i, n in enumerate(["clz", "ctz", "popcnt"]):
        add(0x79 + i, "i64." + n, [I64], [I64])
    for i, n in enumerate(["add", "sub", "mul", "div_s", "div_u", "rem_s", "rem_u", "and", "or",
                           "xor", "shl", "shr_s", "shr_u", "rotl", "rotr"]):
        add(0x7C + i, "i64." + n, [I64, I64], [I64])
    for i, n in enumerate(["abs", "neg", "ceil", "floor", "trunc", "nearest", "sqrt"]):
        add(0x8B + i, "f32." + n, [F32], [F32])
    for i, n in enumerate(["add", "sub", "mul", "div", "min", "max", "copysign"]):
        add(0x92 + i, "f32." + n, [F32, F32], [F32])
    for i, n in enumerate(["abs", "neg", "ceil", "floor", "trunc", "nearest", "sqrt"]):
        add(0x99 + i, "f64." + n, [F64], [F64])
    for i, n in enumerate(["add", "sub", "mul", "div", "min", "max", "copysign"]):
        add(0xA0 + i, "f64." + n, [F64, F64], [F64])
    conv = [
        (0xA7, "i32.wrap_i64", I64, I32), (0xA8, "i32.trunc_f32_s", F32, I32),
        (0xA9, "i32.trunc_f32_u", F32, I32), (0xAA, "i32.trunc_f64_s", F64, I32),
        (0xAB, "i32.trunc_f64_u", F64, I32), (0xAC, "i64.extend_i32_s", I32, I64),
        (0xAD, "i64.extend_i32_u", I32, I64), (0xAE, "i64.trunc_f32_s", F32, I64),
        (0xAF, "i64.trunc_f32_u", F32, I64), (0xB0, "i64.trunc_f64_s", F64, I64),
        (0xB1, "i64.trunc_f64_u", F64, I64), (0xB2, "f32.convert_i32_s", I32, F32),
        (0xB3, "f32.convert_i32_u", I32, F32), (0xB4, "f32.convert_i64_s", I64, F32),
        (0xB5, "f32.convert_i64_u", I64, F32), (0xB6, "f32.demote_f64", F64, F32),
        (0xB7, "f64.convert_i32_s", I32, F64), (0xB8, "f64.convert_i32_u", I32, F64),
        (0xB9, "f64.convert_i64_s", I64, F64), (0xBA, "f64.convert_i64_u", I64, F64),
        (0xBB, "f64.promote_f32", F32, F64), (0xBC, "i32.reinterpret_f32", F32, I32),
        (0xBD, "i64.reinterpret_f64", F64, I64), (0xBE, "f32.reinterpret_i32", I32, F32),
        (0xBF, "f64.reinterpret_i64", I64, F64),
    ]
    for op, n, a, b in conv:
        add(op, n, [a], [b])
    return t


NUMERIC = _num_table()

LOADS = {0x28: ("i32.load", I32), 0x29: ("i64.load", I64), 0x2A: ("f32.load", F32),
         0x2B: ("f64.load", F64), 0x2C: ("i32.load8_s", I32), 0x2D: ("i32.load8_u", I32),
         0x2E: ("i32.load16_s", I32), 0x2F: ("i32.load16_u", I32), 0x30: ("i64.load8_s", I64),
         0x31: ("i64.load8_u", I64), 0x32: ("i64.load16_s", I64), 0x33: ("i64.load16_u", I64),
         0x34: ("i64.load32_s", I64), 0x35: ("i64.load32_u", I64)}
STORES = {0x36: ("i32.store", I32), 0x37: ("i64.store", I64), 0x38: ("f32.store", F32),
          0x39: ("f64.store", F64), 0x3A: ("i32.store8", I32), 0x3B: ("i32.store16", I32),
          0x3C: ("i64.store8", I64), 0x3D: ("i64.store16", I64), 0x3E: ("i64.store32", I64)}


class Instr:
    __slots__ = ("op", "name", "imm", "pos", "imm_raw")

    def __init__(self, op, name, imm, pos, imm_raw=b""):
        self.op = op
        self.name = name
        self.imm = imm
        self.pos = pos
        self.imm_raw = imm_raw

    def __repr__(self):
        return "%s %r" % (self.name, self.imm) if self.imm is not None else self.name


def decode_expr(r):
    """Decode instructions up to and including the matching final `end`."""
    out = []
    depth = 0
    while True:
        pos = r.p
        op = r.byte()
        p0 = r.p
        if op == 0x00:
            ins = Instr(op, "unreachable", None, pos)
        elif op == 0x01:
            ins = Instr(op, "nop", None, pos)
        elif op in (0x02, 0x03, 0x04):
            b = r.byte()
            if b == 0x40:
                bt = None
            elif b in VALTYPES:
                bt = b
            else:
                raise Malformed("malformed block type")
            ins = Instr(op, {2: "block", 3: "loop", 4: "if"}[op], bt, pos)
            depth += 1
        elif op == 0x05:
            ins = Instr(op, "else", None, pos)
        elif op == 0x0B:
            ins = Instr(op, "end", None, pos)
            out.append(ins)
            if depth == 0:
                return out
            depth -= 1
            continue
        elif op in (0x0C, 0x0D):
            ins = Instr(op, "br" if op == 0x0C else "br_if", r.uleb(), pos)
        elif op == 0x0E:
            n = r.uleb()
            labels = [r.uleb() for _ in range(n)]
            ins = Instr(op, "br_table", (labels, r.uleb()), pos)
        elif op == 0x0F:
            ins = Instr(op, "return", None, pos)
        elif op == 0x10:
            ins = Instr(op, "call", r.uleb(), pos)
        elif op == 0x11:
            ti = r.uleb()
            if r.byte() != 0:
                raise Malformed("zero flag expected")
            ins = Instr(op, "call_indirect", ti, pos)
        elif op == 0x1A:
            ins = Instr(op, "drop", None, pos)
        elif op == 0x1B:
            ins = Instr(op, "select", None, pos)
        elif 0x20 <= op <= 0x24:
            ins = Instr(op, ["local.get", "local.set", "local.tee", "global.get", "global.set"][op - 0x20],
                        r.uleb(), pos)
        elif op in LOADS or op in STORES:
            name = (LOADS.get(op) or STORES.get(op))[0]
            ins = Instr(op, name, (r.uleb(), r.uleb()), pos)
        elif op in (0x3F, 0x40):
            if r.byte() != 0:
                raise Malformed("zero flag expected")
            ins = Instr(op, "memory.size" if op == 0x3F else "memory.grow", None, pos)
        elif op == 0x41:
            ins = Instr(op, "i32.const", r.sleb(32), pos)
        elif op == 0x42:
            ins = Instr(op, "i64.const", r.sleb(64), pos)
        elif op == 0x43:
            ins = Instr(op, "f32.const", struct.unpack("<f", r.take(4))[0], pos)
        elif op == 0x44:
            ins = Instr(op, "f64.const", struct.unpack("<d", r.take(8))[0], pos)
        elif op in NUMERIC:
            ins = Instr(op, NUMERIC[op][0], None, pos)
        else:
            raise Malformed("illegal opcode 0x%02x" % op)
        ins.imm_raw = bytes(r.d[p0:r.p])
        out.append(ins)


class FuncType:
    def __init__(self, params, results):
        self.params = params
        self.results = results

    def __repr__(self):
        return "(%s)->(%s)" % (",".join(VALTYPES[p] for p in self.params),
                               ",".join(VALTYPES[p] for p in self.results))


class Body:
    def __init__(self, locals_, instrs, size, raw_locals):
        self.locals = locals_  # flat list of valtypes
        self.instrs = instrs
        self.size = size
        self.local_groups = raw_locals


class Module:
    def __init__(self):
        self.types = []
        self.imports = []
        self.funcs = []  # type indices
        self.tables = []
        self.mems = []
        self.globals = []
        self.exports = []  # (name, kind, idx)
        self.start = None
        self.elems = []
        self.codes = []
        self.datas = []
        self.sections = []  # (id, offset, size)
        self.fields = []  # (what, flavour, value, raw bytes) integers we decoded


def decode(data, strict=True):
    data = bytes(data)
    r = Reader(data)
    if r.take(4) != b"\x00asm":
        raise Malformed("magic header not detected")
    if r.take(4) != b"\x01\x00\x00\x00":
        raise Malformed("unknown binary version")
    m = Module()
    last = 0
    while not r.eof():
        sid = r.byte()
        p0 = r.p
        size = r.uleb()
        m.fields.append(("section%d.size" % sid, "u", size, data[p0:r.p]))
        start = r.p
        if start + size > len(data):
            raise Malformed("section size out of bounds")
        s = Reader(data, start, start + size)
        if sid != 0:
            if sid > 11:
                raise Malformed("malformed section id %d" % sid)
            if sid <= last:
                raise Malformed("unexpected/out-of-order section %d" % sid)
            last = sid
        m.sections.append((sid, start, size))
        if sid == 0:
            s.name()
            s.p = s.end
        elif sid == 1:
            for _ in range(s.uleb()):
                if s.byte() != 0x60:
                    raise Malformed("functype tag 0x60 expected")
                params = [s.valtype() for _ in range(s.uleb())]
                results = [s.valtype() for _ in range(s.uleb())]
                m.types.append(FuncType(params, results))
        elif sid == 2:
            for _ in range(s.uleb()):
                mod, nm = s.name(), s.name()
                kind = s.byte()
                if kind == 0:
                    m.imports.append((mod, nm, "func", s.uleb()))
                elif kind == 1:
                    if s.byte() != 0x70:
                        raise Malformed("malformed reference type")
                    m.imports.append((mod, nm, "table", s.limits()))
                elif kind == 2:
                    m.imports.append((mod, nm, "mem", s.limits()))
                elif kind == 3:
                    vt = s.valtype()
                    mut = s.byte()
                    if mut not in (0, 1):
                        raise Malformed("malformed mutability")
                    m.imports.append((mod, nm, "global", (vt, mut)))
                else:
                    raise Malformed("malformed import kind")
        elif sid == 3:
            for _ in range(s.uleb()):
                m.funcs.append(s.uleb())
        elif sid == 4:
            for _ in range(s.uleb()):
                if s.byte() != 0x70:
                    raise Malformed("malformed reference type")
                m.tables.append(s.limits())
        elif sid == 5:
            for _ in range(s.uleb()):
                m.mems.append(s.limits())
        elif sid == 6:
            for _ in range(s.uleb()):
                vt = s.valtype()
                mut = s.byte()
                if mut not in (0, 1):
                    raise Malformed("malformed mutability")
                m.globals.append((vt, mut, decode_expr(s)))
        elif sid == 7:
            for _ in range(s.uleb()):
                p1 = s.p
                ln = s.uleb()
                m.fields.append(("export.name.len", "u", ln, data[p1:s.p]))
                s.p = p1
                nm = s.name()
                kind = s.byte()
                if kind > 3:
                    raise Malformed("malformed export kind")
                p1 = s.p
                idx = s.uleb()
                m.fields.append(("export.index", "u", idx, data[p1:s.p]))
                m.exports.append((nm, kind, idx))
        elif sid == 8:
            m.start = s.uleb()
        elif sid == 9:
            for _ in range(s.uleb()):
                ti = s.uleb()
                off = decode_expr(s)
                m.elems.append((ti, off, [s.uleb() for _ in range(s.uleb())]))
        elif sid == 10:
            for _ in range(s.uleb()):
                p1 = s.p
                bsize = s.uleb()
                m.fields.append(("code.body.size", "u", bsize, data[p1:s.p]))
                bstart = s.p
                if bstart + bsize > s.end:
                    raise Malformed("function body size out of bounds")
                b = Reader(data, bstart, bstart + bsize)
                groups = []
                flat = []
                total = 0
                for _ in range(b.uleb()):
                    p2 = b.p
                    cnt = b.uleb()
                    m.fields.append(("local.count", "u", cnt, data[p2:b.p]))
                    vt = b.valtype()
                    groups.append((cnt, vt))
                    total += cnt
                    if total > 50000:
                        raise Malformed("too many locals")
                    flat.extend([vt] * cnt)
                instrs = decode_expr(b)
                if not b.eof():
                    raise Malformed("function body: bytes after final end / size mismatch")
                for ins in instrs:
                    if ins.name == "i32.const":
                        m.fields.append(("i32.const", "s", ins.imm, ins.imm_raw))
                    elif ins.name in ("local.get", "local.set", "local.tee", "call"):
                        m.fields.append((ins.name, "u", ins.imm, ins.imm_raw))
                m.codes.append(Body(flat, instrs, bsize, groups))
                s.p = bstart + bsize
        elif sid == 11:
            for _ in range(s.uleb()):
                mi = s.uleb()
                off = decode_expr(s)
                m.datas.append((mi, off, s.take(s.uleb())))
        if not s.eof():
            raise Malformed("section %d size mismatch (%d bytes left)" % (sid, s.end - s.p))
        r.p = start + size
    if strict and len(m.funcs) != len(m.codes):
        raise Malformed("function and code section have inconsistent lengths (%d vs %d)" % (
            len(m.funcs), len(m.codes)))
    return m


# --------------------------------------------------------------------------
# validation (spec appendix algorithm)

UNKNOWN = "?"


class _Frame:
    def __init__(self, opcode, start, end, height):
        self.opcode = opcode
        self.start_types = start
        self.end_types = end
        self.height = height
        self.unreachable = False


class _BodyValidator:
    def __init__(self, mod, ftype, locals_, nfuncs_types, globals_):
        self.m = mod
        self.ft = ftype
        self.locals = list(ftype.params) + list(locals_)
        self.functypes = nfuncs_types
        self.globals = globals_
        self.vals = []
        self.ctrls = []

    def push(self, t):
        self.vals.append(t)

    def pop(self, expect=None):
        fr = self.ctrls[-1]
        if len(self.vals) == fr.height:
            if fr.unreachable:
                return expect if expect is not None else UNKNOWN
            raise Invalid("type mismatch: operand stack underflow")
        t = self.vals.pop()
        if expect is not None and t != expect and t != UNKNOWN and expect != UNKNOWN:
            raise Invalid("type mismatch: expected %s got %s" % (
                VALTYPES.get(expect, expect), VALTYPES.get(t, t)))
        return t

    def pops(self, types):
        for t in reversed(types):
            self.pop(t)

    def push_ctrl(self, opcode, ins, outs):
        self.ctrls.append(_Frame(opcode, ins, outs, len(self.vals)))
        for t in ins:
            self.push(t)

    def pop_ctrl(self):
        if not self.ctrls:
            raise Invalid("control stack underflow")
        fr = self.ctrls[-1]
        self.pops(fr.end_types)
        if len(self.vals) != fr.height:
            raise Invalid("type mismatch: values remaining on stack at end of block")
        self.ctrls.pop()
        return fr

    def label_types(self, fr):
        return fr.start_types if fr.opcode == "loop" else fr.end_types

    def unreachable(self):
        fr = self.ctrls[-1]
        del self.vals[fr.height:]
        fr.unreachable = True

    def label(self, n):
        if n >= len(self.ctrls):
            raise Invalid("unknown label %d" % n)
        return self.ctrls[-1 - n]

    def run(self, instrs):
        self.push_ctrl("func", [], list(self.ft.results))
        for ins in instrs:
            n = ins.name
            if not self.ctrls:
                raise Invalid("instruction after end of function")
            if n == "unreachable":
                self.unreachable()
            elif n == "nop":
                pass
            elif n in ("block", "loop"):
                self.push_ctrl(n, [], [] if ins.imm is None else [ins.imm])
            elif n == "if":
                self.pop(I32)
                self.push_ctrl("if", [], [] if ins.imm is None else [ins.imm])
            elif n == "else":
                fr = self.pop_ctrl()
                if fr.opcode != "if":
                    raise Invalid("else without if")
                self.push_ctrl("else", fr.start_types, fr.end_types)
            elif n == "end":
                fr = self.pop_ctrl()
                if fr.opcode == "if" and fr.end_types:
                    raise Invalid("type mismatch: if without else must have empty result")
                for t in fr.end_types:
                    self.push(t)
            elif n == "br":
                self.pops(self.label_types(self.label(ins.imm)))
                self.unreachable()
            elif n == "br_if":
                self.pop(I32)
                ts = self.label_types(self.label(ins.imm))
                self.pops(ts)
                for t in ts:
                    self.push(t)
            elif n == "br_table":
                self.pop(I32)
                labels, default = ins.imm
                dts = self.label_types(self.label(default))
                for l in labels:
                    if self.label_types(self.label(l)) != dts:
                        raise Invalid("br_table type mismatch")
                self.pops(dts)
                self.unreachable()
            elif n == "return":
                self.pops(self.ft.results)
                self.unreachable()
            elif n == "call":
                if ins.imm >= len(self.functypes):
                    raise Invalid("unknown function %d" % ins.imm)
                ft = self.functypes[ins.imm]
                self.pops(ft.params)
                for t in ft.results:
                    self.push(t)
            elif n == "call_indirect":
                if not (self.m.tables or any(i[2] == "table" for i in self.m.imports)):
                    raise Invalid("unknown table")
                if ins.imm >= len(self.m.types):
                    raise Invalid("unknown type")
                ft = self.m.types[ins.imm]
                self.pop(I32)
                self.pops(ft.params)
                for t in ft.results:
                    self.push(t)
            elif n == "drop":
                self.pop()
            elif n == "select":
                self.pop(I32)
                t1 = self.pop()
                t2 = self.pop(t1 if t1 != UNKNOWN else None)
                self.push(t2 if t1 == UNKNOWN else t1)
            elif n in ("local.get", "local.set", "local.tee"):
                if ins.imm >= len(self.locals):
                    raise Invalid("unknown local %d" % ins.imm)
                t = self.locals[ins.imm]
                if n == "local.get":
                    self.push(t)
                elif n == "local.set":
                    self.pop(t)
                else:
                    self.pop(t)
                    self.push(t)
            elif n in ("global.get", "global.set"):
                if ins.imm >= len(self.globals):
                    raise Invalid("unknown global %d" % ins.imm)
                vt, mut = self.globals[ins.imm]
                if n == "global.get":
                    self.push(vt)
                else:
                    if not mut:
                        raise Invalid("global is immutable")
                    self.pop(vt)
            elif ins.op in LOADS or ins.op in STORES or n in ("memory.size", "memory.grow"):
                if not (self.m.mems or any(i[2] == "mem" for i in self.m.imports)):
                    raise Invalid("unknown memory")
                if ins.op in LOADS:
                    self.pop(I32)
                    self.push(LOADS[ins.op][1])
                elif ins.op in STORES:
                    self.pop(STORES[ins.op][1])
                    self.pop(I32)
                elif n == "memory.size":
                    self.push(I32)
                else:
                    self.pop(I32)
                    self.push(I32)
            elif n == "i32.const":
                self.push(I32)
            elif n == "i64.const":
                self.push(I64)
            elif n == "f32.const":
                self.push(F32)
            elif n == "f64.const":
                self.push(F64)
            elif ins.op in NUMERIC:
                _, _, params, results = NUMERIC[ins.op]
                self.pops(params)
                for t in results:
                    self.push(t)
            else:  # pragma: no cover
                raise Invalid("unhandled instruction " + n)
        if self.ctrls:
            raise Invalid("function body not terminated")


def validate(m):
    """Raise Invalid if the decoded module violates the WebAssembly 1.0
    validation rules we cover (see DESIGN 3.4)."""
    for ft in m.types:
        if len(ft.results) > 1:
            raise Invalid("invalid result arity")
    imp_funcs = [i for i in m.imports if i[2] == "func"]
    for i in imp_funcs:
        if i[3] >= len(m.types):
            raise Invalid("unknown type")
    for ti in m.funcs:
        if ti >= len(m.types):
            raise Invalid("unknown type %d" % ti)
    functypes = [m.types[i[3]] for i in imp_funcs] + [m.types[ti] for ti in m.funcs]
    ntables = len(m.tables) + sum(1 for i in m.imports if i[2] == "table")
    nmems = len(m.mems) + sum(1 for i in m.imports if i[2] == "mem")
    if ntables > 1:
        raise Invalid("multiple tables")
    if nmems > 1:
        raise Invalid("multiple memories")
    for lo, hi in m.tables:
        if hi is not None and hi < lo:
            raise Invalid("size minimum must not be greater than maximum")
    for lo, hi in m.mems:
        if lo > 65536 or (hi is not None and (hi > 65536 or hi < lo)):
            raise Invalid("memory size")
    globs = [i[3] for i in m.imports if i[2] == "global"] + [(g[0], g[1]) for g in m.globals]
    names = set()
    for nm, kind, idx in m.exports:
        if nm in names:
            raise Invalid("duplicate export name %r" % nm)
        names.add(nm)
        limit = [len(functypes), ntables, nmems, len(globs)][kind]
        if idx >= limit:
            raise Invalid("unknown %s %d in export %r" % (
                ["function", "table", "memory", "global"][kind], idx, nm))
    if m.start is not None:
        if m.start >= len(functypes):
            raise Invalid("unknown function (start)")
        ft = functypes[m.start]
        if ft.params or ft.results:
            raise Invalid("start function type")
    for ti, off, funcs in m.elems:
        if ti >= ntables:
            raise Invalid("unknown table")
        for f in funcs:
            if f >= len(functypes):
                raise Invalid("unknown function in element segment")
    for mi, off, _ in m.datas:
        if mi >= nmems:
            raise Invalid("unknown memory")
    for k, body in enumerate(m.codes):
        ft = m.types[m.funcs[k]]
        try:
            _BodyValidator(m, ft, body.locals, functypes, globs).run(body.instrs)
        except Invalid as e:
            raise Invalid("function %d: %s" % (k, e))
    return True


def check_bytes(data):
    """-> (ok, stage, message, module)"""
    try:
        m = decode(data)
    except Malformed as e:
        return (False, "malformed", str(e), None)
    try:
        validate(m)
    except Invalid as e:
        return (False, "invalid", str(e), m)
    return (True, "", "", m)


# --------------------------------------------------------------------------
# tiny interpreter: straight-line numeric code, no control flow except return

class Trap(Exception):
    pass


class Unsupported(Exception):
    pass


def _f32(x):
    try:
        return struct.unpack("<f", struct.pack("<f", x))[0]
    except OverflowError:
        return math.copysign(math.inf, x)


def _s32(x):
    x &= 0xFFFFFFFF
    return x - (1 << 32) if x & 0x80000000 else x


def execute(m, export_name, args):
    idx = None
    for nm, kind, i in m.exports:
        if nm == export_name and kind == 0:
            idx = i
    if idx is None:
        raise Unsupported("no such export")
    nimp = sum(1 for i in m.imports if i[2] == "func")
    if idx < nimp:
        raise Unsupported("imported function")
    body = m.codes[idx - nimp]
    ft = m.types[m.funcs[idx - nimp]]
    locs = []
    for t, a in zip(ft.params, args):
        locs.append(_s32(int(a)) if t == I32 else _f32(float(a)))
    for t in body.locals:
        locs.append(0 if t in (I32, I64) else 0.0)
    st = []
    for ins in body.instrs:
        n = ins.name
        if n == "local.get":
            st.append(locs[ins.imm])
        elif n == "local.set":
            locs[ins.imm] = st.pop()
        elif n == "local.tee":
            locs[ins.imm] = st[-1]
        elif n == "i32.const":
            st.append(_s32(ins.imm))
        elif n == "f32.const":
            st.append(_f32(ins.imm))
        elif n in ("return", "end"):
            break
        elif n == "nop":
            pass
        elif n == "drop":
            st.pop()
        elif n.startswith("i32.") and ins.op in NUMERIC and len(NUMERIC[ins.op][2]) == 2:
            b = st.pop()
            a = st.pop()
            o = n[4:]
            ua, ub = a & 0xFFFFFFFF, b & 0xFFFFFFFF
            if o == "add":
                r = _s32(a + b)
            elif o == "sub":
                r = _s32(a - b)
            elif o == "mul":
                r = _s32(a * b)
            elif o == "div_s":
                if b == 0:
                    raise Trap("integer divide by zero")
                if a == -(1 << 31) and b == -1:
                    raise Trap("integer overflow")
                q = abs(a) // abs(b)
                r = q if (a < 0) == (b < 0) else -q
            elif o == "div_u":
                if b == 0:
                    raise Trap("integer divide by zero")
                r = _s32(ua // ub)
            elif o == "rem_s":
                if b == 0:
                    raise Trap("integer divide by zero")
                r = abs(a) % abs(b)
                r = r if a >= 0 else -r
            elif o == "rem_u":
                if b == 0:
                    raise Trap("integer divide by zero")
                r = _s32(ua % ub)
            elif o == "and":
                r = _s32(ua & ub)
            elif o == "or":
                r = _s32(ua | ub)
            elif o == "xor":
                r = _s32(ua ^ ub)
            elif o in ("eq", "ne", "lt_s", "lt_u", "gt_s", "gt_u", "le_s", "le_u", "ge_s", "ge_u"):
                x, y = (ua, ub) if o.endswith("_u") else (a, b)
                r = int({"eq": x == y, "ne": x != y, "lt": x < y, "gt": x > y,
                         "le": x <= y, "ge": x >= y}[o[:2]])
            else:
                raise Unsupported(n)
            st.append(r)
        elif n == "i32.eqz":
            st.append(int(st.pop() == 0))
        elif n.startswith("f32.") and ins.op in NUMERIC and len(NUMERIC[ins.op][2]) == 2:
            b = st.pop()
            a = st.pop()
            o = n[4:]
            if o == "add":
                r = _f32(a + b)
            elif o == "sub":
                r = _f32(a - b)
            elif o == "mul":
                r = _f32(a * b)
            elif o == "div":
                if b == 0:
                    r = math.nan if a == 0 or a != a else math.copysign(math.inf, a) * math.copysign(1, b)
                else:
                    r = _f32(a / b)
            elif o in ("eq", "ne", "lt", "gt", "le", "ge"):
                r = int({"eq": a == b, "ne": a != b, "lt": a < b, "gt": a > b,
                         "le": a <= b, "ge": a >= b}[o])
            else:
                raise Unsupported(n)
            st.append(r)
        elif n == "f32.convert_i32_s":
            st.append(_f32(float(st.pop())))
        else:
            raise Unsupported(n)
    if ft.results:
        return st[-1]
    return None
