"""./check <ID> [quick|thorough]   |   ./check <ID> --replay <file>"""
import importlib
import os
import sys
import traceback


def main(argv):
    if not argv:
        print(__doc__, file=sys.stderr)
        return 2
    prop = argv[0].upper()
    tier = os.environ.get("VERIF_TIER", "quick")
    replay_path = None
    rest = argv[1:]
    i = 0
    while i < len(rest):
        a = rest[i]
        if a in ("quick", "thorough"):
            tier = a
        elif a == "--replay":
            replay_path = rest[i + 1]
            i += 1
        else:
            print("unknown argument", a, file=sys.stderr)
            return 2
        i += 1
    if tier not in ("quick", "thorough"):
        tier = "quick"
    try:
        seed = int(os.environ.get("VERIF_SEED", "0"))
    except ValueError:
        seed = 0
    try:
        from . import runner
        if not replay_path:
            runner.start_pool()  # fork the workers while this process is still small
        from . import adapter
        adapter.warm_parser()
        mod = importlib.import_module("vf.checks." + prop.lower())
        replay = None
        if replay_path:
            part, case, _ = runner.load_replay(replay_path)
            replay = (part, case)
        R = runner.Runner(prop, tier, seed, level=getattr(mod, "LEVEL", "exploration"),
                          replay=replay)
        R.replay_path = replay_path
        R.rule = getattr(mod, "RULE", "")
        R.assumptions = list(getattr(mod, "ASSUMPTIONS", []))
        runner.big_frame(mod.run, R)
        runner.stop_pool()
        return R.finish()
    except SystemExit:
        raise
    except BaseException:
        traceback.print_exc()
        print("HARNESS-ERROR: check %s could not run" % prop, file=sys.stderr)
        return 2


if __name__ == "__main__":
    sys.exit(main(sys.argv[1:]))
