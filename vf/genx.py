"""Extended program generators: vectors / matrices (C04), call graphs (C03).
Built on gen.G; every random choice is a Hypothesis draw."""
import copy

from hypothesis import strategies as st

from . import gen
from . import model as M
from .model import INT, FLOAT

FVEC = [M.vec("float", n) for n in (2, 3, 4)]
IVEC = [M.vec("int", n) for n in (2, 3, 4)]
MATS = [M.mat("float", 3, 3), M.mat("float", 4, 4)]
XYZW = "xyzw"
RGBA = "rgba"


def scalar_of(t):
    return ("s", t[1])


class GX(gen.G):
    """adds vector / matrix typed variables, expressions and statements"""

    def __init__(self, draw, feat):
        super().__init__(draw, feat)
        self.vtypes = feat.get("vtypes", FVEC + IVEC + MATS)

    # -- places ---------------------------------------------------------------------
    def vars_of(self, pred, writable=False):
        return [(n, t) for n, t in self.visible().items() if pred(t) and not (writable and n in self.protected)]

    def scalar_places(self, ty, writable=False):
        out = super().scalar_places(ty, writable)
        if not self.feat.get("vec", True):
            return out
        for n, t in self.visible().items():
            if writable and n in self.protected:
                continue
            if M.is_vec(t) and scalar_of(t) == ty:
                out.append(("vcomp", n, t))
            elif M.is_mat(t) and scalar_of(t) == ty:
                out.append(("mcomp", n, t))
        return out

    def comp_index(self, size):
        """constant or bounded dynamic component index"""
        return self.safe_index(size)

    def place_expr(self, pl):
        kind = pl[0]
        if kind == "vcomp":
            n, t = pl[1], pl[2]
            if self.chance(50):
                ch = self.pick((XYZW if self.chance(60) else RGBA)[:t[2]])
                return M.Member(M.Var(n, t), ch, scalar_of(t))
            return M.Index(M.Var(n, t), self.comp_index(t[2]), scalar_of(t))
        if kind == "mcomp":
            n, t = pl[1], pl[2]
            row = M.Index(M.Var(n, t), self.comp_index(t[2]), M.vec(t[1], t[3]))
            if self.chance(30):
                ch = self.pick(XYZW[:t[3]])
                return M.Member(row, ch, scalar_of(t))
            return M.Index(row, self.comp_index(t[3]), scalar_of(t))
        return super().place_expr(pl)

    # -- vector / matrix expressions ------------------------------------------------------
    def vleaf(self, ty):
        cands = [n for n, t in self.visible().items() if t == ty]
        r = self.d(st.integers(0, 99))
        if cands and r < 55:
            return M.Var(self.pick(sorted(cands)), ty)
        if M.is_vec(ty):
            # swizzle of some visible vector with the same component type
            srcs = [(n, t) for n, t in self.visible().items() if M.is_vec(t) and t[1] == ty[1]]
            if srcs and r < 75:
                n, t = self.pick(sorted(srcs))
                letters = XYZW if self.chance(65) else RGBA
                mask = "".join(self.pick(letters[:t[2]]) for _ in range(ty[2]))
                return M.Member(M.Var(n, t), mask, ty)
            rows = [(n, t) for n, t in self.visible().items() if M.is_mat(t) and t[1] == ty[1] and t[3] == ty[2]]
            if rows and r < 85:
                n, t = self.pick(sorted(rows))
                return M.Index(M.Var(n, t), self.comp_index(t[2]), ty)
            return self.construct_vec(ty, 1)
        return self.construct_mat(ty, 1)

    def construct_vec(self, ty, depth):
        """float3(a, b, c) | float3(v2, c) | float3(c, v2) ... arguments of the SAME component type"""
        n = ty[2]
        cty = scalar_of(ty)
        parts = []
        remaining = n
        while remaining > 0:
            k = 1
            if remaining >= 2 and remaining < n + 1 and self.chance(30):
                k = self.d(st.integers(2, min(remaining, n - 1 if n > 2 else 2)))
                if k >= n:
                    k = 1
            if k == 1:
                parts.append(self.expr(cty, max(depth - 1, 0)))
            else:
                sub = M.vec(ty[1], k)
                cands = [nm for nm, t in self.visible().items() if t == sub]
                if cands:
                    parts.append(M.Var(self.pick(sorted(cands)), sub))
                else:
                    parts.append(M.Construct(sub, [self.expr(cty, 0) for _ in range(k)]))
            remaining -= k
        return M.Construct(ty, parts)

    def construct_mat(self, ty, depth):
        rowty = M.vec(ty[1], ty[3])
        return M.Construct(ty, [self.vexpr(rowty, max(depth - 1, 0)) for _ in range(ty[2])])

    def vexpr(self, ty, depth):
        if depth <= 0 or self.chance(30):
            return self.vleaf(ty)
        r = self.d(st.integers(0, 99))
        cty = scalar_of(ty)
        if M.is_vec(ty):
            if ty[1] == "int" and r < 18:
                # component-wise comparison of two vectors of equal size (float or int)
                src = self.pick([M.vec("float", ty[2]), ty])
                if self.feat.get("mixed_components", True) and self.chance(20):
                    # int vector compared with float vector (either side)
                    a, b = M.vec("int", ty[2]), M.vec("float", ty[2])
                    if self.chance(50):
                        a, b = b, a
                    return M.Bin(self.pick(M.CMP), self.vexpr(a, depth - 1), self.vexpr(b, depth - 1))
                left = self.vexpr(src, depth - 1)
                same = [n for n, t in self.visible().items() if t == src]
                if same and self.chance(45):
                    # operands that agree in some components (<= vs <, >= vs >, == on equal parts)
                    v = M.Var(self.pick(sorted(same)), src)
                    left = v
                    if self.chance(50):
                        right = M.Var(v.name, src)
                    else:
                        letters = XYZW[:src[2]]
                        mask = "".join(self.pick(letters) if self.chance(40) else letters[i] for i in range(src[2]))
                        right = M.Member(M.Var(v.name, src), mask, src)
                    return M.Bin(self.pick(M.CMP), left, right)
                return M.Bin(self.pick(M.CMP), left, self.vexpr(src, depth - 1))
            if r < 45:
                l, rr = self.vexpr(ty, depth - 1), self.vexpr(ty, depth - 1)
                if ty[1] == "float" and self.feat.get("mixed_components", True) and self.chance(25):
                    # one operand is an int vector of the same size: promoted component-wise (C09)
                    other = self.vexpr(("v", "int", ty[2]), depth - 1)
                    l, rr = (other, rr) if self.chance(50) else (l, other)
                return M.Bin(self.pick(["+", "-"]), l, rr)
            if r < 70:
                sc = self.expr(cty, depth - 1)
                if ty[1] == "float" and self.feat.get("mixed_components", True) and self.chance(20):
                    sc = self.expr(INT, depth - 1)
                return M.Bin("*", self.vexpr(ty, depth - 1), sc)
            if r < 82:
                rhs = self.nonzero_lit(cty) if (cty == INT or self.chance(70)) else self.expr(cty, depth - 1)
                return M.Bin("/", self.vexpr(ty, depth - 1), rhs)
            if r < 92:
                return self.construct_vec(ty, depth)
            return self.vleaf(ty)
        # matrix
        if r < 35:
            return M.Bin(self.pick(["+", "-"]), self.vexpr(ty, depth - 1), self.vexpr(ty, depth - 1))
        if r < 55:
            return M.Bin("*", self.vexpr(ty, depth - 1), self.expr(cty, depth - 1))
        if r < 65:
            return M.Bin("/", self.vexpr(ty, depth - 1), self.nonzero_lit(cty))
        if r < 85 and self.feat.get("matmul", True):
            return M.Bin("*", self.vexpr(ty, depth - 1), self.vexpr(ty, depth - 1))
        return self.construct_mat(ty, depth)

    def any_expr(self, ty, depth):
        if M.is_scalar(ty):
            return self.rhs(ty, depth)
        return self.vexpr(ty, depth)

    # -- statements --------------------------------------------------------------------------
    def vdecl_stmt(self):
        ty = self.pick(self.vtypes)
        name = self.fresh("w" if M.is_vec(ty) else "m")
        init = self.vexpr(ty, 2) if self.chance(70) else None
        self.declare(name, ty)
        return M.Decl(ty, name, init)

    def vassign_stmt(self):
        targets = self.vars_of(lambda t: M.is_vec(t) or M.is_mat(t), writable=True)
        if not targets:
            return None
        n, t = self.pick(sorted(targets))
        v = M.Var(n, t)
        r = self.d(st.integers(0, 99))
        if M.is_vec(t):
            if r < 30:
                op = self.pick(["=", "=", "+=", "-="])
                return M.ExprStmt(M.Assign(v, op, self.vexpr(t, 2)))
            if r < 40:
                return M.ExprStmt(M.Assign(v, self.pick(["*=", "/="]), self.nonzero_lit(scalar_of(t))
                                           if t[1] == "float" else M.Lit(1, INT, "1")))
            # swizzle write with a non-repeating mask
            k = self.d(st.integers(1, t[2]))
            letters = list((XYZW if self.chance(65) else RGBA)[:t[2]])
            mask = ""
            for _ in range(k):
                ch = self.pick(letters)
                letters.remove(ch)
                mask += ch
            sty = scalar_of(t) if k == 1 else M.vec(t[1], k)
            tgt = M.Member(v, mask, sty)
            op = self.pick(["=", "=", "=", "+=", "-="])
            return M.ExprStmt(M.Assign(tgt, op, self.any_expr(sty, 2)))
        # matrix
        rowty = M.vec(t[1], t[3])
        if r < 25:
            return M.ExprStmt(M.Assign(v, self.pick(["=", "=", "+=", "-="]), self.vexpr(t, 1)))
        row = M.Index(v, self.comp_index(t[2]), rowty)
        if r < 55:
            return M.ExprStmt(M.Assign(row, self.pick(["=", "=", "+="]), self.vexpr(rowty, 2)))
        if r < 80:
            k = self.d(st.integers(1, t[3]))
            letters = list(XYZW[:t[3]])
            mask = ""
            for _ in range(k):
                ch = self.pick(letters)
                letters.remove(ch)
                mask += ch
            sty = scalar_of(t) if k == 1 else M.vec(t[1], k)
            return M.ExprStmt(M.Assign(M.Member(row, mask, sty), "=", self.any_expr(sty, 1)))
        el = M.Index(row, self.comp_index(t[3]), scalar_of(t))
        return M.ExprStmt(M.Assign(el, self.pick(["=", "+=", "*="]), self.rhs(scalar_of(t), 1)))

    def copy_then_write(self):
        """T c = v;  <write to c or to v>;  (both are read later by ordinary generation)"""
        srcs = self.vars_of(lambda t: M.is_vec(t) or M.is_mat(t))
        if not srcs:
            return None
        n, t = self.pick(sorted(srcs))
        name = self.fresh("c")
        self.declare(name, t)
        return M.Decl(t, name, M.Var(n, t))

    def void_call_stmt(self):
        cands = [(i, f) for i, f in enumerate(self.funcs) if f.ret == M.VOID]
        if not cands or self.nest >= 2:
            return None
        i, f = self.pick(cands)
        self.nest += 1
        args = [self.arg_for(pty, 1) for pty, _ in f.params]
        self.nest -= 1
        return M.ExprStmt(M.Call(f.name, args, M.VOID, i))

    def stmt(self, depth):
        if self.feat.get("calls") and self.chance(12):
            s = self.void_call_stmt()
            if s is not None:
                self.budget -= 1
                return s
        if self.feat.get("vec", True):
            r = self.d(st.integers(0, 99))
            if r < 12:
                self.budget -= 1
                return self.vdecl_stmt()
            if r < 34:
                self.budget -= 1
                s = self.vassign_stmt()
                if s is not None:
                    return s
                return self.vdecl_stmt()
            if r < 40:
                self.budget -= 1
                s = self.copy_then_write()
                if s is not None:
                    return s
        return super().stmt(depth)

    # -- calls -------------------------------------------------------------------------------
    def call_expr(self, ty, depth):
        if self.nest >= 2:
            return None
        cands = [(i, f) for i, f in enumerate(self.funcs) if f.ret == ty and self.callable_here(i, f)]
        if not cands:
            return None
        i, f = self.pick(cands)
        self.nest += 1
        args = [self.arg_for(pty, depth - 1) for pty, _ in f.params]
        if self.feat.get("convert_args") and any(p == FLOAT for p, _ in f.params) and self.chance(45):
            # pass an int where a float is expected, but only if the call still resolves to f
            from .checks.c10 import resolve
            alt = [self.expr(INT, max(depth - 1, 0)) if (p == FLOAT and self.chance(60)) else a
                   for a, (p, _) in zip(args, f.params)]
            same = [g for g in self.funcs if g.name == f.name]
            sigs = [tuple(t for t, _ in g.params) for g in same]
            if resolve(sigs, tuple(a.ty for a in alt)) == same.index(f):
                args = alt
        self.nest -= 1
        if f.name.startswith(("r", "t")):
            # recursion depth is the first argument: keep it small
            k = self.d(st.integers(0, 4))
            args[0] = M.Lit(k, INT, str(k))
        return M.Call(f.name, args, f.ret, i)

    def callable_here(self, i, f):
        # overload sets: only call the overload whose parameter types we match exactly (C10 owns ranking)
        return not getattr(f, "norandomcall", False)

    def arg_for(self, pty, depth):
        if M.is_scalar(pty):
            return self.expr(pty, max(depth, 0))
        return self.vexpr(pty, max(depth, 1))

    def expr(self, ty, depth):
        if self.feat.get("calls") and depth > 0 and self.chance(self.feat.get("callpct", 14)):
            c = self.call_expr(ty, depth)
            if c is not None:
                return c
        return super().expr(ty, depth)

    def vexpr_call(self, ty, depth):
        return self.call_expr(ty, depth)

    def function(self, name, exported, nparams=None, ret=None, size=None, depth=3, ptypes=None, rtypes=None):
        self.scopes = [gen.Scope()]
        self.names_in_func = set()
        self.counter = 0
        self.protected = set()
        self.bounded = {}
        self.loop_depth = 0
        ptypes = ptypes or [INT, INT, FLOAT]
        nparams = nparams if nparams is not None else self.d(st.integers(1, 4))
        params = []
        for k in range(nparams):
            ty = self.pick(ptypes)
            nm = "p%d" % k
            params.append((ty, nm))
            self.declare(nm, ty)
        self.ret_ty = ret if ret is not None else self.pick(rtypes or [INT, INT, FLOAT])
        self.budget = size if size is not None else self.d(st.integers(2, 10))
        self.push()
        stmts = []
        while self.budget > 0:
            stmts.append(self.stmt(depth))
        stmts.append(M.Return(self.any_expr(self.ret_ty, 3)))
        self.pop()
        return M.Func(name, params, self.ret_ty, M.Block(stmts), exported)

    def simple_stmt(self):
        # returns of vector type
        if not M.is_scalar(self.ret_ty):
            self.budget -= 1
            r = self.d(st.integers(0, 99))
            if self.loop_depth > 0 and r < 18:
                return M.Break() if self.chance(50) else M.Continue()
            if r < 26:
                return M.Return(self.vexpr(self.ret_ty, 2))
            return self.assign_stmt()
        return super().simple_stmt()


def _inputs(draw, prog, f, n_inputs):
    inputs = []
    for _ in range(n_inputs):
        args = {nm: draw(gen.value_of(ty, prog)) for ty, nm in f.params}
        gl = {nm: draw(gen.value_of(ty, prog)) for ty, nm in prog.globals}
        inputs.append((args, gl))
    return inputs


@st.composite
def vector_case(draw, n_inputs=3):
    """C04: one exported function over vectors / matrices (same component type per operation)."""
    comp = draw(st.sampled_from(["float", "float", "int"]))
    vt = [t for t in FVEC + IVEC + MATS if t[1] == comp]
    if comp == "float" and draw(st.booleans()):
        vt = vt + IVEC[:1]
    g = GX(draw, {"storage": False, "vec": True, "vtypes": vt, "matmul": True})
    globs = []
    for k in range(draw(st.integers(0, 2))):
        globs.append((g.pick(vt + [INT, FLOAT]), "g%d" % k))
    for ty, nm in globs:
        g.globals[nm] = ty
    f = g.function("f", True, nparams=draw(st.integers(1, 3)), ptypes=vt + vt + [INT, FLOAT],
                   rtypes=vt + [INT, FLOAT], size=draw(st.integers(2, 8)), depth=2)
    prog = M.Program([], globs, [f])
    return gen.Case(prog, "f", _inputs(draw, prog, f, n_inputs), draw(st.sampled_from(["full", "min"])))


@st.composite
def calls_case(draw, n_inputs=3):
    """C03: 2-5 functions, nested / repeated / recursive / overloaded calls; callees modify their parameters."""
    g = GX(draw, {"storage": False, "vec": True, "calls": True, "callpct": 22, "convert_args": True,
                  "vtypes": [M.vec("float", 2), M.vec("float", 3), M.vec("int", 2), M.mat("float", 3, 3)]})
    ptypes = [INT, INT, FLOAT, FLOAT, M.vec("float", 2), M.vec("float", 3), M.vec("int", 2), M.mat("float", 3, 3)]
    globs = []
    for k in range(draw(st.integers(0, 2))):
        globs.append((g.pick([INT, FLOAT]), "g%d" % k))
    for ty, nm in globs:
        g.globals[nm] = ty
    nf = draw(st.integers(1, 4))
    used = set()
    for k in range(nf):
        shape = draw(st.integers(0, 9))
        if shape < 3 and k > 0 and any(f.ret != M.VOID and not f.name.startswith(("r", "t")) for f in g.funcs):
            # overload of an earlier helper with different parameter types and / or count
            base = g.pick([f for f in g.funcs if f.ret != M.VOID and not f.name.startswith(("r", "t"))])
            name = base.name
            sig = None
            for attempt in range(6):
                n_par = len(base.params) if g.chance(50) else draw(st.integers(1, 3))
                cand = tuple(g.pick(ptypes) for _ in range(n_par))
                if attempt == 0 and g.chance(50):
                    # a "prefix" overload: the base signature with int<->float swapped, one parameter more or less
                    swapped = tuple(INT if t == FLOAT else FLOAT if t == INT else t for t, _ in base.params)
                    cand = swapped + (g.pick(ptypes),) if (g.chance(60) or len(swapped) == 1) else swapped[:-1]
                if all(tuple(t for t, _ in f.params) != cand for f in g.funcs if f.name == name) and not any(
                        _confusable(cand, tuple(t for t, _ in f.params)) for f in g.funcs if f.name == name):
                    sig = cand
                    break
            if sig is None:
                name = "h%d" % k
                sig = tuple(g.pick(ptypes) for _ in range(draw(st.integers(1, 3))))
        elif shape < 4:
            name = "r%d" % k
            g.funcs.append(_recursive(g, name))
            continue
        elif shape < 5:
            g.funcs.append(_tree_recursive(g, "t%d" % k))
            continue
        elif shape < 6 and g.globals:
            g.funcs.append(_void_helper(g, "v%d" % k, tuple(g.pick(ptypes) for _ in range(draw(st.integers(1, 2))))))
            continue
        else:
            name = "h%d" % k
            sig = tuple(g.pick(ptypes) for _ in range(draw(st.integers(1, 3))))
        f = _helper(g, name, sig, unnamed_ok=(name == "h%d" % k))
        g.funcs.append(f)
    entry = g.function("f", True, nparams=draw(st.integers(1, 3)), ptypes=ptypes,
                       rtypes=[INT, FLOAT, FLOAT, M.vec("float", 2)], size=draw(st.integers(2, 7)), depth=2)
    # the caller reads every one of its own parameters after the calls
    tail = []
    for ty, nm in entry.params:
        if M.is_scalar(ty) and g.globals:
            gn = sorted(g.globals)[0]
            gt = g.globals[gn]
            if gt == FLOAT or ty == INT:
                tail.append(M.ExprStmt(M.Assign(M.Var(gn, gt), "=", M.Bin("+", M.Var(gn, gt), M.Var(nm, ty)))))
    entry.body.stmts[-1:-1] = tail
    g.funcs.append(entry)
    prog = M.Program([], globs, g.funcs)
    _resolve_targets(prog)
    return gen.Case(prog, "f", _inputs(draw, prog, entry, n_inputs), draw(st.sampled_from(["full", "min"])))


def _confusable(a, b):
    """two signatures between which implicit conversions could make a call ambiguous"""
    if len(a) != len(b):
        return False
    for x, y in zip(a, b):
        if x == y:
            continue
        if x[0] == "s" and y[0] == "s":
            continue
        if x[0] == "v" and y[0] == "v" and x[2] == y[2]:
            continue
        return False
    return True


def _helper(g, name, sig, unnamed_ok=False):
    """callee that modifies its own parameters before using them"""
    g.scopes = [gen.Scope()]
    g.names_in_func = set()
    g.counter = 0
    g.protected = set()
    g.bounded = {}
    g.loop_depth = 0
    params = []
    for k, ty in enumerate(sig):
        params.append((ty, "p%d" % k))
        g.declare("p%d" % k, ty)
    g.ret_ty = g.pick([t for t in sig] + [INT, FLOAT])
    g.push()
    stmts = []
    # parameter modifications first (this is what must stay invisible to the caller)
    for ty, nm in params:
        if not g.chance(75):
            continue
        v = M.Var(nm, ty)
        if M.is_scalar(ty):
            k = g.d(st.integers(0, 3))
            if k == 0:
                stmts.append(M.ExprStmt(M.Affix(g.pick(["++", "--"]), v, g.chance(50))))
            elif k == 1:
                stmts.append(M.ExprStmt(M.Assign(v, g.pick(["+=", "-=", "*="]), g.rhs(ty, 1))))
            else:
                stmts.append(M.ExprStmt(M.Assign(v, "=", g.rhs(ty, 2))))
        else:
            s = None
            for _ in range(4):
                s = g.vassign_stmt()
                if s is not None and _writes(s, nm):
                    break
            if s is not None:
                stmts.append(s)
    # element write, whole reassignment from a value someone else also holds, element write again:
    # the second write must still land in the callee's own copy
    for ty, nm in params:
        if not (M.is_vec(ty) or M.is_mat(ty)) or not g.chance(35):
            continue
        shared = [M.Var(n2, t2) for t2, n2 in params if t2 == ty and n2 != nm]
        shared += [M.Var(gn, gt) for gn, gt in sorted(g.globals.items()) if gt == ty]
        if not shared:
            continue
        v = M.Var(nm, ty)
        stmts.append(_element_write(g, v))
        stmts.append(M.ExprStmt(M.Assign(v, "=", g.pick(shared))))
        if g.chance(50):
            stmts.append(M.ExprStmt(M.Assign(v, "=", g.pick(shared))))
        stmts.append(_element_write(g, v))
        if g.chance(50):
            stmts.append(_element_write(g, v))
    g.budget = g.d(st.integers(0, 4))
    while g.budget > 0:
        stmts.append(g.stmt(1))
    stmts.append(M.Return(g.any_expr(g.ret_ty, 2)))
    g.pop()
    if unnamed_ok and g.chance(25):
        # a parameter without a name (only its type is spelled): the named ones keep their positions
        pos = g.d(st.integers(0, len(params)))
        params.insert(pos, (g.pick([INT, FLOAT]), "unnamed_%d" % pos))
    return M.Func(name, params, g.ret_ty, M.Block(stmts), False)


def _element_write(g, v):
    """v[i] = e for a vector, v[i][j] = e for a matrix (constant or bounded dynamic indices)"""
    t = v.ty
    sc = scalar_of(t)
    if M.is_vec(t):
        tgt = M.Index(v, g.comp_index(t[2]), sc)
    else:
        tgt = M.Index(M.Index(v, g.comp_index(t[2]), M.vec(t[1], t[3])), g.comp_index(t[3]), sc)
    return M.ExprStmt(M.Assign(tgt, g.pick(["=", "=", "+="]), g.any_expr(sc, 1)))


def _writes(stmt, name):
    e = stmt.e
    t = e.target
    while not isinstance(t, M.Var):
        t = t.base
    return t.name == name


def _recursive(g, name):
    """function r(int n, T acc) -> T: direct recursion bounded by the decreasing n"""
    ty = g.pick([INT, FLOAT, M.vec("float", 2)])
    g.scopes = [gen.Scope()]
    g.names_in_func = set()
    g.counter = 0
    g.protected = {"p0"}
    g.bounded = {}
    g.loop_depth = 0
    g.declare("p0", INT)
    g.declare("p1", ty)
    g.ret_ty = ty
    n = M.Var("p0", INT)
    acc = M.Var("p1", ty)
    g.push()
    base = M.If(M.Bin("<=", n, M.Lit(0, INT, "0")), M.Block([M.Return(acc)]))
    step = g.any_expr(ty, 1)
    mod = M.ExprStmt(M.Assign(acc, g.pick(["=", "+="]) if ty != INT else "=", step))
    idx = len(g.funcs)
    call = M.Call(name, [M.Bin("-", n, M.Lit(1, INT, "1")), g.any_expr(ty, 1)], ty, idx)
    local = g.fresh("k")
    g.declare(local, ty)
    stmts = [base, mod, M.Decl(ty, local, call)]
    # after the recursive call returned, the own parameters must be unchanged
    if M.is_scalar(ty):
        ret = M.Bin("+", M.Var(local, ty), M.Bin("+", acc, n) if ty == INT else M.Bin("+", acc, n))
    else:
        ret = M.Bin("+", M.Var(local, ty), acc)
    stmts.append(M.Return(ret))
    g.pop()
    return M.Func(name, [(INT, "p0"), (ty, "p1")], ty, M.Block(stmts), False)


def _tree_recursive(g, name):
    """function t(int n, int acc) -> int with TWO recursive calls per activation (fib-like);
    own parameters and locals are read after each call returned"""
    g.scopes = [gen.Scope()]
    g.names_in_func = set()
    g.counter = 0
    g.protected = {"p0"}
    g.bounded = {}
    g.loop_depth = 0
    g.declare("p0", INT)
    g.declare("p1", INT)
    g.ret_ty = INT
    n = M.Var("p0", INT)
    acc = M.Var("p1", INT)
    idx = len(g.funcs)
    one, two = M.Lit(1, INT, "1"), M.Lit(2, INT, "2")
    base = M.If(M.Bin("<=", n, one), M.Block([M.Return(M.Bin("+", acc, n))]))
    a = M.Decl(INT, "a", M.Call(name, [M.Bin("-", n, one), M.Bin("+", acc, one)], INT, idx))
    mod = M.ExprStmt(M.Assign(acc, "=", M.Bin("+", M.Bin("*", acc, two), n)))
    b = M.Decl(INT, "b", M.Call(name, [M.Bin("-", n, two), acc], INT, idx))
    total = M.Bin("+", M.Bin("+", M.Var("a", INT), M.Bin("*", M.Var("b", INT), M.Lit(3, INT, "3"))), M.Bin("+", acc, n))
    body = [base, a, mod, b]
    if g.chance(50):
        # a local aggregate with inner containers (2-D array), written before the calls and read after them:
        # every activation owns all of it
        t2 = M.arr(INT, (2, 2))
        row = M.arr(INT, (2,))
        t = M.Var("t", t2)
        zero = M.Lit(0, INT, "0")
        el = lambda i, j: M.Index(M.Index(t, i, row), j, INT)
        body = [base, M.Decl(t2, "t"), M.ExprStmt(M.Assign(el(one, M.Bin("%", n, two)), "=", acc)),
                M.ExprStmt(M.Assign(el(zero, zero), "+=", n)), a, mod, b]
        total = M.Bin("+", total, M.Bin("-", M.Bin("+", el(one, zero), el(one, one)), el(zero, zero)))
    return M.Func(name, [(INT, "p0"), (INT, "p1")], INT, M.Block(body + [M.Return(total)]), False)


def _void_helper(g, name, sig):
    """void callee WITHOUT a return statement: writes a global and modifies its parameters"""
    g.scopes = [gen.Scope()]
    g.names_in_func = set()
    g.counter = 0
    g.protected = set()
    g.bounded = {}
    g.loop_depth = 0
    params = []
    for k, ty in enumerate(sig):
        params.append((ty, "p%d" % k))
        g.declare("p%d" % k, ty)
    g.ret_ty = INT
    g.push()
    stmts = []
    for ty, nm in params:
        v = M.Var(nm, ty)
        if M.is_scalar(ty):
            stmts.append(M.ExprStmt(M.Assign(v, g.pick(["+=", "*=", "="]), g.rhs(ty, 1))))
        else:
            s = g.vassign_stmt()
            if s is not None:
                stmts.append(s)
    gn = g.pick(sorted(g.globals))
    gt = g.globals[gn]
    src = [nm for ty, nm in params if ty == gt or (ty == INT and gt == FLOAT)]
    val = M.Var(src[0], dict((n, t) for t, n in params)[src[0]]) if src else g.rhs(gt, 1)
    stmts.append(M.ExprStmt(M.Assign(M.Var(gn, gt), "=", M.Bin("+", M.Var(gn, gt), val))))
    g.pop()
    return M.Func(name, params, M.VOID, M.Block(stmts), False)


def _resolve_targets(prog):
    """Calls created against g.funcs indices stay valid because funcs are only appended."""
    return prog
