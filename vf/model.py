"""Independent model of NSL programs: types, a mini AST, typing rules taken from
the property statements, a source printer (paren modes, layouts, token offsets)
and a tokenizer used to keep layouts token-preserving."""
import re

# --------------------------------------------------------------------------
# types: hashable tuples
INT = ("s", "int")
FLOAT = ("s", "float")
UINT = ("s", "uint")
VOID = ("void",)


def vec(comp, n):
    return ("v", comp, n)


def mat(comp, r, c):
    return ("m", comp, r, c)


def arr(elem, dims):
    return ("a", elem, tuple(dims))


def struct(name):
    return ("st", name)


def is_scalar(t):
    return t[0] == "s"


def is_vec(t):
    return t[0] == "v"


def is_mat(t):
    return t[0] == "m"


def is_arr(t):
    return t[0] == "a"


def is_struct(t):
    return t[0] == "st"


def comp_of(t):
    """component (scalar) type of a scalar / vector / matrix"""
    if t[0] == "s":
        return t
    return ("s", t[1])


def tname(t):
    k = t[0]
    if k == "s":
        return t[1]
    if k == "v":
        return "%s%d" % (t[1], t[2])
    if k == "m":
        return "%s%dx%d" % (t[1], t[2], t[3])
    if k == "a":
        return tname(t[1]) + "".join("[%d]" % d for d in t[2])
    if k == "st":
        return t[1]
    if k == "void":
        return "void"
    raise ValueError(t)


RANK = {"uint": 0, "int": 1, "float": 2}


def wider(a, b):
    """a, b scalar type names -> the wider of float > int > uint"""
    return a if RANK[a] >= RANK[b] else b


ARITH = ("+", "-", "*", "/", "%")
CMP = ("<", "<=", ">", ">=", "==", "!=")
LOGIC = ("&&", "||")
ALL_OPS = ARITH + CMP + LOGIC
PREC = {"||": 1, "&&": 2, "==": 3, "!=": 3, "<": 4, "<=": 4, ">": 4, ">=": 4,
        "+": 5, "-": 5, "*": 6, "/": 6, "%": 6}


class TypeErr(Exception):
    pass


def shape(t):
    """(kind, rows, cols) with vectors as column vectors"""
    if is_scalar(t):
        return ("s", 1, 1)
    if is_vec(t):
        return ("v", t[2], 1)
    if is_mat(t):
        return ("m", t[2], t[3])
    raise TypeErr("not a built-in type")


def binop_type(op, l, r):
    """Transcription of the C09 statement.  Returns (result, left operand
    conversion type, right operand conversion type); raises TypeErr when the
    combination is rejected; raises Undefined where the statement leaves the
    answer open."""
    if not (l[0] in "svm" and r[0] in "svm"):
        raise TypeErr("operators need built-in types")
    lk, rk = l[0], r[0]
    c = wider(comp_of(l)[1], comp_of(r)[1])
    cs = ("s", c)

    def with_comp(t):
        if t[0] == "s":
            return cs
        if t[0] == "v":
            return ("v", c, t[2])
        return ("m", c, t[2], t[3])

    if op in CMP:
        if lk == "s" and rk == "s":
            return (INT, cs, cs)
        if lk == "v" and rk == "v" and l[2] == r[2]:
            return (("v", "int", l[2]), with_comp(l), with_comp(r))
        if lk == "m" and rk == "m":
            raise Undefined("matrix comparison")
        raise TypeErr("comparison of different kinds/sizes")
    if op in ("+", "-", "%", "&&", "||"):
        if lk == "s" and rk == "s":
            return (cs, cs, cs)
        if lk == rk and l[2:] == r[2:]:
            res = with_comp(l)
            return (res, res, res)
        raise TypeErr("shape mismatch")
    if op == "/":
        if rk != "s":
            raise TypeErr("right operand of / must be scalar")
        res = with_comp(l)
        return (res, res, cs)
    if op == "*":
        if lk == "s" and rk == "s":
            return (cs, cs, cs)
        if rk == "s":
            res = with_comp(l)
            return (res, res, cs)
        if lk == "s":
            res = with_comp(r)
            return (res, cs, res)
        if lk == "v" and rk == "v":
            raise TypeErr("vector times vector")
        if lk == "m":
            rows, inner = l[2], l[3]
            if rk == "v":
                if inner != r[2]:
                    raise TypeErr("inner dimension")
                return (("v", c, rows), with_comp(l), with_comp(r))
            if inner != r[2]:
                raise TypeErr("inner dimension")
            cols = r[3]
            if cols == 1:
                raise Undefined("matrix times one-column matrix")
            return (("m", c, rows, cols), with_comp(l), with_comp(r))
        # vector on the left of a matrix: a column vector has one column, so
        # the inner dimensions agree only with a one-row matrix
        if lk == "v" and rk == "m":
            if r[2] == 1:
                raise Undefined("vector times one-row matrix")
            raise TypeErr("inner dimension")
    raise TypeErr("unknown operator")


class Undefined(Exception):
    pass


# --------------------------------------------------------------------------
# AST


class Node:
    __slots__ = ()

    def __repr__(self):
        return "%s(%s)" % (type(self).__name__, ", ".join(
            "%s=%r" % (s, getattr(self, s, None)) for s in self.__slots__))


class Lit(Node):
    __slots__ = ("value", "ty", "text")

    def __init__(self, value, ty, text=None):
        self.value = value
        self.ty = ty
        self.text = text if text is not None else spell(value, ty)


class Var(Node):
    __slots__ = ("name", "ty")

    def __init__(self, name, ty):
        self.name = name
        self.ty = ty


class Bin(Node):
    __slots__ = ("op", "l", "r", "ty", "paren")

    def __init__(self, op, l, r, ty=None, paren=False):
        self.op = op
        self.l = l
        self.r = r
        self.ty = ty if ty is not None else binop_type(op, l.ty, r.ty)[0]
        self.paren = paren  # explicit redundant parentheses requested


class Call(Node):
    __slots__ = ("fname", "args", "ty", "target")

    def __init__(self, fname, args, ty, target=None):
        self.fname = fname
        self.args = args
        self.ty = ty
        self.target = target  # index of the resolved overload in Program.funcs


class Index(Node):
    __slots__ = ("base", "idx", "ty")

    def __init__(self, base, idx, ty=None):
        self.base = base
        self.idx = idx
        self.ty = ty if ty is not None else index_type(base.ty)


class Member(Node):
    """struct field or swizzle"""
    __slots__ = ("base", "name", "ty")

    def __init__(self, base, name, ty):
        self.base = base
        self.name = name
        self.ty = ty


class Construct(Node):
    __slots__ = ("ty", "args")

    def __init__(self, ty, args):
        self.ty = ty
        self.args = args


class Assign(Node):
    __slots__ = ("target", "op", "value", "ty")

    def __init__(self, target, op, value):
        self.target = target
        self.op = op  # '=', '+=', '-=', '*=', '/='
        self.value = value
        self.ty = target.ty


class Affix(Node):
    __slots__ = ("op", "var", "pre", "ty")

    def __init__(self, op, var, pre):
        self.op = op  # '++' or '--'
        self.var = var
        self.pre = pre
        self.ty = var.ty


# statements
class Decl(Node):
    __slots__ = ("ty", "name", "init")

    def __init__(self, ty, name, init=None):
        self.ty = ty
        self.name = name
        self.init = init


class ExprStmt(Node):
    __slots__ = ("e",)

    def __init__(self, e):
        self.e = e


class If(Node):
    __slots__ = ("cond", "then", "els")

    def __init__(self, cond, then, els=None):
        self.cond = cond
        self.then = then
        self.els = els


class For(Node):
    __slots__ = ("init", "cond", "next", "body")

    def __init__(self, init, cond, nxt, body):
        self.init = init
        self.cond = cond
        self.next = nxt
        self.body = body


class While(Node):
    __slots__ = ("cond", "body")

    def __init__(self, cond, body):
        self.cond = cond
        self.body = body


class Do(Node):
    __slots__ = ("body", "cond")

    def __init__(self, body, cond):
        self.body = body
        self.cond = cond


class Break(Node):
    __slots__ = ()


class Continue(Node):
    __slots__ = ()


class Return(Node):
    __slots__ = ("e",)

    def __init__(self, e=None):
        self.e = e


class Block(Node):
    __slots__ = ("stmts",)

    def __init__(self, stmts):
        self.stmts = stmts


class Func(Node):
    __slots__ = ("name", "params", "ret", "body", "exported")

    def __init__(self, name, params, ret, body, exported=False):
        self.name = name
        self.params = params  # [(ty, name)]
        self.ret = ret
        self.body = body
        self.exported = exported


class Program(Node):
    __slots__ = ("structs", "globals", "funcs", "imports")

    def __init__(self, structs=None, globals_=None, funcs=None, imports=None):
        self.structs = structs or []  # [(name, [(ty, fname)])]
        self.globals = globals_ or []  # [(ty, name)]
        self.funcs = funcs or []
        self.imports = imports or []

    def struct_fields(self, name):
        for n, fields in self.structs:
            if n == name:
                return fields
        raise KeyError(name)


def index_type(t):
    if is_vec(t):
        return ("s", t[1])
    if is_mat(t):
        return ("v", t[1], t[3])
    if is_arr(t):
        if len(t[2]) > 1:
            return ("a", t[1], t[2][1:])
        return t[1]
    raise TypeErr("cannot index " + tname(t))


SWZ = {"x": 0, "y": 1, "z": 2, "w": 3, "r": 0, "g": 1, "b": 2, "a": 3}


def swizzle_type(base, mask):
    c = comp_of(base)
    if len(mask) == 1:
        return c
    return ("v", c[1], len(mask))


# --------------------------------------------------------------------------
# literal spelling


def spell(value, ty):
    if ty == FLOAT:
        if value != value or value in (float("inf"), float("-inf")):
            raise ValueError("non-finite literal")
        s = repr(float(abs(value)))
        if "e" in s or "E" in s:
            s = "%.17g" % abs(value)
            if "." not in s and "e" not in s:
                s += ".0"
        if value < 0:
            # no unary minus and no signed float token in the language
            raise ValueError("negative float literal cannot be spelled")
        return s
    return str(int(value))


# --------------------------------------------------------------------------
# printer -> token list


class Printer:
    """paren_mode: 'full'  - every nested binary operand is parenthesised
                   'min'   - only where precedence / left-assoc. requires it"""

    def __init__(self, paren_mode="full"):
        self.mode = paren_mode
        self.toks = []
        self.marks = []  # (kind, name, token_index) for identifiers/literals/decls

    def t(self, *ts):
        self.toks.extend(ts)

    def mark(self, kind, text):
        self.marks.append((kind, text, len(self.toks)))

    # expressions -----------------------------------------------------------
    def expr(self, e):
        if isinstance(e, Lit):
            self.mark("lit", e.text)
            self.t(e.text)
        elif isinstance(e, Var):
            self.mark("id", e.name)
            self.t(e.name)
        elif isinstance(e, Bin):
            self.binary(e, top=True)
        elif isinstance(e, Call):
            self.t(e.fname, "(")
            for i, a in enumerate(e.args):
                if i:
                    self.t(",")
                self.expr(a)
            self.t(")")
        elif isinstance(e, Index):
            self.expr(e.base)
            self.t("[")
            self.expr(e.idx)
            self.t("]")
        elif isinstance(e, Member):
            self.expr(e.base)
            self.t(".")
            self.mark("member", e.name)
            self.t(e.name)
        elif isinstance(e, Construct):
            self.t(tname(e.ty), "(")
            for i, a in enumerate(e.args):
                if i:
                    self.t(",")
                self.expr(a)
            self.t(")")
        elif isinstance(e, Assign):
            self.expr(e.target)
            self.t(e.op)
            self.expr(e.value)
        elif isinstance(e, Affix):
            if e.pre:
                self.t(e.op)
                self.mark("id", e.var.name)
                self.t(e.var.name)
            else:
                self.mark("id", e.var.name)
                self.t(e.var.name)
                self.t(e.op)
        elif e is None:
            pass
        else:
            raise TypeError(e)

    def binary(self, e, top=False, parent=None, side=None):
        need = False
        if parent is not None:
            if self.mode == "full":
                need = True
            else:
                pp, pc = PREC[parent.op], PREC[e.op]
                need = pc < pp or (pc == pp and side == "r")
        if e.paren:
            need = True
        if need:
            self.t("(")
        for side_, child in (("l", e.l), ("r", e.r)):
            if isinstance(child, Bin):
                self.binary(child, parent=e, side=side_)
            else:
                self.expr(child)
            if side_ == "l":
                self.t(e.op)
        if need:
            self.t(")")

    # statements -------------------------------------------------------------
    def decl(self, d):
        self.t(*type_tokens(d.ty))
        self.mark("decl", d.name)
        self.t(d.name)
        if d.init is not None:
            self.t("=")
            self.expr(d.init)

    def stmt(self, s):
        if isinstance(s, Decl):
            self.decl(s)
            self.t(";")
        elif isinstance(s, ExprStmt):
            self.expr(s.e)
            self.t(";")
        elif isinstance(s, If):
            self.t("if", "(")
            self.expr(s.cond)
            self.t(")")
            self.stmt(s.then)
            if s.els is not None:
                self.t("else")
                self.stmt(s.els)
        elif isinstance(s, For):
            self.t("for", "(")
            if s.init is not None:
                self.decl(s.init)
            self.t(";")
            if s.cond is not None:
                self.expr(s.cond)
            self.t(";")
            if s.next is not None:
                self.expr(s.next)
            self.t(")")
            self.stmt(s.body)
        elif isinstance(s, While):
            self.t("while", "(")
            self.expr(s.cond)
            self.t(")")
            self.stmt(s.body)
        elif isinstance(s, Do):
            self.t("do")
            self.stmt(s.body)
            self.t("while", "(")
            self.expr(s.cond)
            self.t(")")
        elif isinstance(s, Break):
            self.t("break", ";")
        elif isinstance(s, Continue):
            self.t("continue", ";")
        elif isinstance(s, Return):
            self.t("return")
            if s.e is not None:
                self.expr(s.e)
            self.t(";")
        elif isinstance(s, Block):
            self.t("{")
            for x in s.stmts:
                self.stmt(x)
            self.t("}")
        else:
            raise TypeError(s)

    def func(self, f):
        if f.exported:
            self.t("export")
        self.t("function", f.name, "(")
        for i, (ty, nm) in enumerate(f.params):
            if i:
                self.t(",")
            self.t(*type_tokens(ty))
            if nm.startswith("unnamed_"):
                continue   # a parameter without a name: only its type is written
            self.mark("param", nm)
            self.t(nm)
        self.t(")", "->")
        self.t(*type_tokens(f.ret))
        self.stmt(f.body)

    def program(self, p):
        for imp in p.imports:
            self.t("import", '"%s"' % imp, ";")
        for name, fields in p.structs:
            self.t("struct", name, "{")
            for ty, fn in fields:
                self.t(*type_tokens(ty))
                self.mark("decl", fn)
                self.t(fn, ";")
            self.t("}")
        for ty, nm in p.globals:
            self.t(*type_tokens(ty))
            self.mark("decl", nm)
            self.t(nm, ";")
        for f in p.funcs:
            self.func(f)


def type_tokens(t):
    if is_arr(t):
        out = [tname(t[1])]
        for d in t[2]:
            out += ["[", str(d), "]"]
        return out
    return [tname(t)]


_STARTERS = {"{", "}", ";"}


def join_tokens(toks, pretty=True):
    """Default layout: single spaces, newline after ; { } at statement level."""
    if not pretty:
        return " ".join(toks)
    out = []
    depth = 0
    paren = 0
    line = []

    def flush():
        if line:
            out.append("    " * max(depth, 0) + " ".join(line))
            line.clear()

    for i, tk in enumerate(toks):
        if tk == "(":
            paren += 1
        elif tk == ")":
            paren -= 1
        if tk == "}":
            flush()
            depth -= 1
            line.append(tk)
            flush()
            continue
        line.append(tk)
        if tk == "{":
            flush()
            depth += 1
        elif tk == ";" and paren == 0:
            flush()
    flush()
    return "\n".join(out) + "\n"


def to_source(node, paren_mode="full", pretty=True):
    p = Printer(paren_mode)
    if isinstance(node, Program):
        p.program(node)
    elif isinstance(node, Func):
        p.func(node)
    elif isinstance(node, (Decl, ExprStmt, If, For, While, Do, Break, Continue, Return, Block)):
        p.stmt(node)
    else:
        p.expr(node)
    return join_tokens(p.toks, pretty)


def to_tokens(node, paren_mode="full"):
    p = Printer(paren_mode)
    if isinstance(node, Program):
        p.program(node)
    elif isinstance(node, Func):
        p.func(node)
    else:
        p.expr(node)
    return p.toks, p.marks


# --------------------------------------------------------------------------
# tokenizer mirroring the token classes of the language (used only to make sure
# a layout did not change the token sequence)

_ID = r"[a-zA-Z_][0-9a-zA-Z_]*"
_SUF = r"(u?ll|U?LL|([uU][lL])|([lL][uU])|[uU]|[lL])?"
_DEC = "(0" + _SUF + ")|([+-]?[1-9][0-9]*" + _SUF + ")"
_OCT = "0[0-7]*" + _SUF
_HEX = "0[xX][0-9a-fA-F]+" + _SUF
_EXP = r"([eE][-+]?[0-9]+)"
_FRAC = r"([0-9]*\.[0-9]+)|([0-9]+\.)"
_FLT = "((((" + _FRAC + ")" + _EXP + "?)|([0-9]+" + _EXP + "))[FfLl]?)"
_STR = r'"([^"\\\n]|(\\[0-9a-zA-Z._~!=&\^\-\\?\'"]))*"'
_OPS = ["<<=", ">>=", "||", "&&", "<=", ">=", "==", "!=", "->", "++", "--", "+=", "-=", "*=", "/=",
        "%=", "&=", "|=", "^=", "<<", ">>", "+", "-", "*", "/", "%", "|", "&", "~", "^", "!", "<",
        ">", "=", ";", "{", "}", "(", ")", ".", "[", "]", ",", ":"]
_TOKEN_RE = re.compile(
    "(?P<ID>%s)|(?P<FLT>%s)|(?P<HEX>%s)|(?P<OCT>%s)|(?P<DEC>%s)|(?P<STR>%s)|(?P<OP>%s)" % (
        _ID, _FLT, _HEX, _OCT, _DEC, _STR, "|".join(re.escape(o) for o in _OPS)))


def tokenize(text):
    """-> list of (token text, offset).  Raises ValueError on an illegal char."""
    out = []
    i = 0
    n = len(text)
    while i < n:
        ch = text[i]
        if ch in " \t\n" or (ch == "\r" and text[i + 1:i + 2] == "\n"):
            # a carriage return in front of a line feed (CRLF text): the lexer reports it and skips it
            i += 1
            continue
        m = _TOKEN_RE.match(text, i)
        if not m:
            raise ValueError("illegal character %r at %d" % (ch, i))
        out.append((m.group(0), i))
        i = m.end()
    return out


def layout(toks, seps):
    """Join tokens with the given separators (len(seps) == len(toks)+1: leading,
    between..., trailing).  Returns (text, offsets) or None if the layout would
    change the token sequence."""
    parts = [seps[0]]
    offsets = []
    pos = len(seps[0])
    for i, tk in enumerate(toks):
        offsets.append(pos)
        parts.append(tk)
        pos += len(tk)
        parts.append(seps[i + 1])
        pos += len(seps[i + 1])
    text = "".join(parts)
    try:
        got = tokenize(text)
    except ValueError:
        return None
    if [g[0] for g in got] != list(toks) or [g[1] for g in got] != offsets:
        return None
    return text, offsets
