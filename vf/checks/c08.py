"""C08 - binary operators group by the declared precedence, left to right."""
import itertools

from hypothesis import strategies as st

from .. import adapter, exprparse, interp
from .. import model as M
from ..interp import OutOfDomain

LEVEL = "exploration"
RULE = ("Exhaustive: every ordered pair (169) and triple (2197) of the 13 binary operators as a chain over identifiers "
        "a,b,c,d, unparenthesised and with every legal parenthesisation (3 resp. 11 patterns), embedded as return "
        "value, assignment RHS, initialiser, if-condition, call argument (first / second) and array index, printed "
        "under 4 token-preserving layouts (single spaces, newline between all tokens, tabs/blank lines, no space "
        "where the token sequence is unaffected). Oracle 1 (shape): the tree returned by NslParser().Parse (read "
        "through GetOperation/GetLeft/GetRight) must equal the tree of an independent precedence-climbing parser "
        "using the levels of the statement; an assignment must own the whole following expression. Oracle 2 "
        "(value): for every chain, int operand values found by search that separate the expected grouping from each "
        "other grouping are run on the VM and compared with the reference interpreter. Generated: chains of 4-7 "
        "operators with random parentheses, operand kinds (identifier, literal, call, index, member) and layouts. "
        "Non-trivial = the expected tree differs from the precedence-blind right-nested tree of the same chain "
        "(shape) / the chosen inputs separate at least one competing grouping (value); distinct by source text.")
ASSUMPTIONS = [
    "vf/exprparse.py implements the six precedence levels and left associativity named in the statement",
    "layouts only vary whitespace between tokens of an unchanged token sequence (re-checked with vf.model.tokenize, "
    "a transcription of the lexer's token classes); e.g. `a -1` is a different token sequence and is not generated",
    "value oracle uses int operands only (so every operator is defined) and discards vectors on which the reference "
    "leaves the stated domain (division by zero, % with a negative operand, 32-bit overflow)",
]

OPS = list(M.ALL_OPS)
NAMES = ["a", "b", "c", "d", "e", "f", "g", "h"]
CONTEXTS = ["ret", "assign", "init", "cond", "arg", "arg2", "index"]
_PARSER = None


def parser():
    global _PARSER
    if _PARSER is None:
        from nsl.parser import NslParser
        with adapter.quiet():
            _PARSER = NslParser()
    return _PARSER


# -- parenthesisation patterns ------------------------------------------------

def paren_patterns(n):
    """all sets of properly nested, non-trivial operand ranges for n operands"""
    ranges = [(i, j) for i in range(n) for j in range(i + 1, n) if (j - i + 1) < n]
    out = [()]
    for k in range(1, len(ranges) + 1):
        for combo in itertools.combinations(ranges, k):
            ok = True
            for (a, b), (c, d) in itertools.combinations(combo, 2):
                disjoint = b < c or d < a
                nested = (a <= c and d <= b) or (c <= a and b <= d)
                if not (disjoint or nested):
                    ok = False
                    break
            if ok:
                out.append(combo)
    return out


def chain_tokens(operands, ops, pattern):
    """operands: list of token lists; -> flat token list with parentheses"""
    n = len(operands)
    opens = [0] * n
    closes = [0] * n
    for (i, j) in pattern:
        opens[i] += 1
        closes[j] += 1
    toks = []
    for k in range(n):
        toks += ["("] * opens[k]
        toks += operands[k]
        toks += [")"] * closes[k]
        if k < n - 1:
            toks.append(ops[k])
    return toks


# -- embedding contexts -----------------------------------------------------------

HEAD = ["export", "function", "f", "(", "int", "a", ",", "int", "b", ",", "int", "c", ",", "int", "d", ")", "->", "int", "{"]
G1 = ["function", "g", "(", "int", "p", ")", "->", "int", "{", "return", "p", ";", "}"]
G2 = ["function", "g", "(", "int", "p", ",", "int", "q", ")", "->", "int", "{", "return", "p", "+", "q", ";", "}"]


def embed(ctxname, etoks):
    if ctxname == "ret":
        return HEAD + ["return"] + etoks + [";", "}"]
    if ctxname == "assign":
        return HEAD + ["int", "x", ";", "x", "="] + etoks + [";", "return", "x", ";", "}"]
    if ctxname == "init":
        return HEAD + ["int", "x", "="] + etoks + [";", "return", "x", ";", "}"]
    if ctxname == "cond":
        return HEAD + ["if", "("] + etoks + [")", "{", "return", "1", ";", "}", "return", "0", ";", "}"]
    if ctxname == "arg":
        return G1 + HEAD + ["return", "g", "("] + etoks + [")", ";", "}"]
    if ctxname == "arg2":
        return G2 + HEAD + ["return", "g", "(", "a", ","] + etoks + [")", ";", "}"]
    if ctxname == "index":
        return HEAD + ["int", "[", "4", "]", "t", ";", "return", "t", "["] + etoks + ["]", ";", "}"]
    raise ValueError(ctxname)


def extract(ctxname, module):
    f = module.GetFunctions()[-1]
    stmts = f.GetBody().GetStatements()
    if ctxname == "ret":
        return exprparse.from_nsl(stmts[0].GetExpression())
    if ctxname == "assign":
        e = exprparse.from_nsl(stmts[1].GetExpression())
        if not (isinstance(e, tuple) and e[0] == "=" and e[2] == "x"):
            return ("bad-assignment", e)
        return e[3]
    if ctxname == "init":
        return exprparse.from_nsl(stmts[0].GetDeclarations()[0].GetInitializerExpression())
    if ctxname == "cond":
        return exprparse.from_nsl(stmts[0].GetCondition())
    if ctxname == "arg":
        e = exprparse.from_nsl(stmts[0].GetExpression())
        if not (e[0] == "call" and len(e[2]) == 1):
            return ("bad-call", e)
        return e[2][0]
    if ctxname == "arg2":
        e = exprparse.from_nsl(stmts[0].GetExpression())
        if not (e[0] == "call" and len(e[2]) == 2 and e[2][0] == "a"):
            return ("bad-call", e)
        return e[2][1]
    if ctxname == "index":
        e = exprparse.from_nsl(stmts[1].GetExpression())
        if not (e[0] == "idx" and e[1] == "t"):
            return ("bad-index", e)
        return e[2]
    raise ValueError(ctxname)


# -- layouts ------------------------------------------------------------------------

def tight_seps(toks):
    seps = [""]
    for i in range(len(toks) - 1):
        pair = toks[i] + toks[i + 1]
        try:
            got = [g[0] for g in M.tokenize(pair)]
        except ValueError:
            got = None
        seps.append("" if got == [toks[i], toks[i + 1]] else " ")
    seps.append("")
    return seps


def layouts(toks, which):
    n = len(toks)
    if which == 0:
        seps = [""] + [" "] * (n - 1) + ["\n"]
    elif which == 1:
        seps = [""] + ["\n"] * (n - 1) + ["\n"]
    elif which == 2:
        cyc = ["\t", "\n\n", " \t ", "\n\t", "  "]
        seps = ["\n\t"] + [cyc[i % len(cyc)] for i in range(n - 1)] + [" \n"]
    else:
        seps = tight_seps(toks)
    r = M.layout(toks, seps)
    if r is None and which == 3:
        # the pairwise-tight layout merged tokens somewhere: fall back to spaces
        # around every operator character only
        seps = [""] + [" "] * (n - 1) + [""]
        r = M.layout(toks, seps)
    return r[0] if r is not None else None


def parse_source(src):
    """-> nsl ast.Module or raises"""
    with adapter.quiet():
        return parser().Parse(src)


# -- shape oracle -------------------------------------------------------------------

def shape_case(ctx, case):
    """case = (ops tuple, pattern, context name, layout index)"""
    ops, pattern, cname, lay = case
    n = len(ops) + 1
    operands = [[NAMES[k]] for k in range(n)]
    etoks = chain_tokens(operands, ops, pattern)
    check_shape(ctx, etoks, cname, lay, case, flat=[NAMES[k // 2] if k % 2 == 0 else ops[k // 2] for k in range(2 * n - 1)])


def check_shape(ctx, etoks, cname, lay, case, flat=None):
    toks = embed(cname, etoks)
    src = layouts(toks, lay)
    if src is None:
        ctx.discard("layout-not-token-preserving")
        return
    ctx.count()
    expected = exprparse.parse_tokens(etoks)
    if flat is not None and expected != exprparse.right_nested(flat):
        ctx.nontrivial(src)
    elif flat is None:
        ctx.nontrivial(src)
    ctx.label("ctx:" + cname)
    ctx.label("layout:%d" % lay)
    if "(" in etoks:
        ctx.label("parenthesised")
    if ctx.want_sample() and lay in (2, 3):
        ctx.sample({"source": src, "expected_tree": exprparse.show(expected)})
    try:
        module = parse_source(src)
    except SystemExit:
        ctx.fail("shape|syntax-error|ctx=%s" % cname,
                 "legal expression rejected by the parser: %r" % src, case)
        return
    except Exception as e:
        ctx.fail("shape|parser-exception|" + type(e).__name__, "parser raised %r on %r" % (e, src), case)
        return
    try:
        got = extract(cname, module)
    except Exception as e:
        ctx.fail("shape|unexpected-tree|ctx=%s" % cname, "cannot find the expression in the parsed module (%r): %r" % (e, src), case)
        return
    if got != expected:
        ctx.fail("shape|wrong-grouping|ctx=%s" % cname,
                 "source %r\nparser grouped   %s\nstatement gives  %s" % (src, exprparse.show(got), exprparse.show(expected)), case)


# -- value oracle -------------------------------------------------------------------

def all_trees(leaves, ops):
    """all binary trees over the chain (every grouping)"""
    if len(leaves) == 1:
        return [leaves[0]]
    out = []
    for k in range(len(ops)):
        for l in all_trees(leaves[:k + 1], ops[:k]):
            for r in all_trees(leaves[k + 1:], ops[k + 1:]):
                out.append((ops[k], l, r))
    return out


def eval_tree(t, env):
    if isinstance(t, str):
        return env[t]
    a = eval_tree(t[1], env)
    b = eval_tree(t[2], env)
    return interp.scalar_op(t[0], a, b, "int")


_GRID = [0, 1, 2, 3, 5, -1, -2]


def separating_inputs(expected, others, names):
    """small set of int vectors on which `expected` is defined and differs from
    as many of `others` as possible"""
    remaining = list(range(len(others)))
    chosen = []
    for vals in itertools.product(_GRID, repeat=len(names)):
        if not remaining:
            break
        env = dict(zip(names, vals))
        try:
            ev = eval_tree(expected, env)
        except OutOfDomain:
            continue
        sep = []
        for i in remaining:
            try:
                ov = eval_tree(others[i], env)
            except OutOfDomain:
                # the other grouping is undefined here: still a usable vector,
                # but it does not count as separating by value
                continue
            if ov != ev:
                sep.append(i)
        if sep:
            chosen.append((env, ev))
            remaining = [i for i in remaining if i not in sep]
    return chosen, remaining


def value_case(ctx, case):
    """case = (ops tuple, context name)"""
    ops, cname = case
    n = len(ops) + 1
    names = NAMES[:n]
    flat = []
    for k in range(n):
        flat.append(names[k])
        if k < n - 1:
            flat.append(ops[k])
    expected = exprparse.parse_tokens(flat)
    others = [t for t in all_trees(names, list(ops)) if t != expected]
    inputs, unsep = separating_inputs(expected, others, names)
    ctx.count()
    if not inputs:
        ctx.discard("no-separating-input (all groupings agree)")
        return
    toks = embed(cname, flat)
    src = layouts(toks, 0)
    c = adapter.compile_src(src)
    if not c.ok:
        ctx.fail("value|rejected|" + c.why()[:80], "well-formed chain rejected: %r: %s" % (src, c.why()), case)
        return
    program = adapter.link([c.ir])
    ctx.nontrivial(src)
    ctx.label("value-ctx:" + cname)
    if ctx.want_sample():
        ctx.sample({"source": src, "inputs": [e for e, _ in inputs[:2]], "expected": [v for _, v in inputs[:2]]})
    for env, ev in inputs:
        if cname == "cond":
            want = 1 if ev != 0 else 0
        elif cname == "arg2":
            try:
                want = interp.scalar_op("+", env["a"], ev, "int")
            except OutOfDomain:
                continue
        elif cname == "index":
            continue
        else:
            want = ev
        args = {k: env.get(k, 0) for k in ("a", "b", "c", "d")}
        vm = adapter.new_vm(program)
        ran = adapter.invoke(vm, "f", args, budget=100000)
        if not ran.ok:
            ctx.fail("value|vm-exception|" + (adapter.exc_sig(ran.exc) if ran.exc else "diverged"),
                     "%r with %r: VM failed %r" % (src, args, ran.exc), case)
            return
        if ran.value != want:
            ctx.fail("value|wrong-value|ctx=%s" % cname,
                     "%r with %r: VM returned %r, the declared grouping %s gives %r" % (
                         src, args, ran.value, exprparse.show(expected), want), case)
            return


def compound_case(ctx, case):
    """case = (compound operator, ops of the right-hand side chain, right-hand side parenthesised?):
    `x cop= b op1 c [op2 d]` means x = x cop (b op1 c [op2 d]) - the right-hand side extends over the whole
    following expression and is grouped by the declared precedence"""
    cop, ops, paren = case
    names = ["b", "c", "d"][:len(ops) + 1]
    flat = []
    for k, nm in enumerate(names):
        flat.append(nm)
        if k < len(ops):
            flat.append(ops[k])
    rhs = exprparse.parse_tokens(flat)
    expected = (cop, "a", rhs)
    others = [t for t in all_trees(["a"] + names, [cop] + list(ops)) if t != expected]
    inputs, _ = separating_inputs(expected, others, ["a"] + names)
    ctx.count()
    if not inputs:
        ctx.discard("no-separating-input (all groupings agree)")
        return
    etoks = (["("] + flat + [")"]) if paren else flat
    toks = HEAD + ["int", "x", "=", "a", ";", "x", cop + "="] + etoks + [";", "return", "x", ";", "}"]
    src = layouts(toks, 0)
    c = adapter.compile_src(src)
    if not c.ok:
        ctx.fail("value|rejected|" + c.why()[:80], "well-formed compound assignment rejected: %r: %s" % (src, c.why()), case)
        return
    program = adapter.link([c.ir])
    ctx.nontrivial(src)
    ctx.label("value-ctx:compound" + ("-parenthesised" if paren else ""))
    for env, ev in inputs:
        args = {k: env.get(k, 0) for k in ("a", "b", "c", "d")}
        ran = adapter.invoke(adapter.new_vm(program), "f", args, budget=100000)
        if not ran.ok:
            ctx.fail("value|vm-exception|" + (adapter.exc_sig(ran.exc) if ran.exc else "diverged"),
                     "%r with %r: VM failed %r" % (src, args, ran.exc), case)
            return
        if ran.value != ev:
            ctx.fail("value|wrong-value|ctx=compound",
                     "%r with %r: VM returned %r, x %s (%s) gives %r" % (src, args, ran.value, cop, exprparse.show(rhs), ev), case)
            return


def paired_case(ctx, case):
    """case = (ops, pattern, parenthesised first?): the default grouping and a parenthesised grouping of the SAME
    operand / operator sequence are evaluated side by side in one basic block; each keeps its own value"""
    ops, pattern, par_first = case
    n = len(ops) + 1
    names = NAMES[:n]
    flat = []
    for k in range(n):
        flat.append(names[k])
        if k < n - 1:
            flat.append(ops[k])
    ptoks = chain_tokens([[x] for x in names], list(ops), pattern)
    t_default = exprparse.parse_tokens(flat)
    t_paren = exprparse.parse_tokens(ptoks)
    ctx.count()
    if t_default == t_paren:
        ctx.discard("parentheses-do-not-change-the-grouping")
        return
    inputs, _ = separating_inputs(t_default, [t_paren], names)
    usable = []
    for env, ev in inputs:
        try:
            usable.append((env, ev, eval_tree(t_paren, env)))
        except OutOfDomain:
            continue
    if not usable:
        ctx.discard("no-input-on-which-both-groupings-are-defined-and-differ")
        return
    first, second = (ptoks, flat) if par_first else (flat, ptoks)
    toks = ["int", "g0", ";", "int", "g1", ";"] + HEAD + ["g0", "="] + first + [";", "g1", "="] + second + [";", "return", "0", ";", "}"]
    src = layouts(toks, 0)
    c = adapter.compile_src(src)
    if not c.ok:
        ctx.fail("value|rejected|" + c.why()[:80], "well-formed program rejected: %r: %s" % (src, c.why()), case)
        return
    program = adapter.link([c.ir])
    ctx.nontrivial(src)
    ctx.label("value-ctx:paired-groupings")
    for env, dv, pv in usable:
        want = (pv, dv) if par_first else (dv, pv)
        args = {k: env.get(k, 0) for k in ("a", "b", "c", "d")}
        vm = adapter.new_vm(program)
        vm.SetGlobal("g0", 0)
        vm.SetGlobal("g1", 0)
        ran = adapter.invoke(vm, "f", args, budget=100000)
        if not ran.ok:
            ctx.fail("value|vm-exception|" + (adapter.exc_sig(ran.exc) if ran.exc else "diverged"), "%r with %r: VM failed %r" % (src, args, ran.exc), case)
            return
        got = (vm.GetGlobal("g0"), vm.GetGlobal("g1"))
        if got != want:
            ctx.fail("value|wrong-value|ctx=paired", "%r with %r: g0, g1 = %r, the two groupings give %r" % (src, args, got, want), case)
            return


def signed_literal_case(ctx, case):
    """case = (ops, position of the signed literal, its spelling): `a op1 -2 op2 c` - a literal with a sign is ONE
    operand, it neither captures nor releases its neighbours"""
    ops, pos, spelling = case
    n = len(ops) + 1
    names = NAMES[:n]
    flat, toks = [], []
    for k in range(n):
        flat.append(names[k])
        toks.append(spelling if k == pos else names[k])
        if k < n - 1:
            flat.append(ops[k])
            toks.append(ops[k])
    expected = exprparse.parse_tokens(flat)
    others = [t for t in all_trees(names, list(ops)) if t != expected]
    lit_val = int(spelling)
    ctx.count()
    chosen = []
    for vals in itertools.product(_GRID, repeat=n - 1):
        env = dict(zip([nm for k, nm in enumerate(names) if k != pos], vals))
        env[names[pos]] = lit_val
        try:
            ev = eval_tree(expected, env)
        except OutOfDomain:
            continue
        sep = False
        for o in others:
            try:
                if eval_tree(o, env) != ev:
                    sep = True
            except OutOfDomain:
                pass
        if sep:
            chosen.append((env, ev))
        if len(chosen) >= 4:
            break
    if not chosen:
        ctx.discard("no-separating-input (all groupings agree)")
        return
    src = layouts(embed("ret", toks), 0)
    c = adapter.compile_src(src)
    if not c.ok:
        ctx.fail("value|rejected|" + c.why()[:80], "well-formed chain with a signed literal rejected: %r: %s" % (src, c.why()), case)
        return
    program = adapter.link([c.ir])
    ctx.nontrivial(src)
    ctx.label("value-ctx:signed-literal")
    for env, ev in chosen:
        args = {k: env.get(k, 0) for k in ("a", "b", "c", "d")}
        ran = adapter.invoke(adapter.new_vm(program), "f", args, budget=100000)
        if not ran.ok:
            ctx.fail("value|vm-exception|" + (adapter.exc_sig(ran.exc) if ran.exc else "diverged"), "%r with %r: VM failed %r" % (src, args, ran.exc), case)
            return
        if ran.value != ev:
            ctx.fail("value|wrong-value|ctx=signed-literal", "%r with %r: VM returned %r, the declared grouping (literal %s as one operand) gives %r" % (
                src, args, ran.value, spelling, ev), case)
            return


def float_chain_case(ctx, case):
    """case = (ops over + - * /, optimise?): float operands, exact comparison with the declared grouping -
    regrouping a float chain changes the last bit"""
    ops, opt = case
    n = len(ops) + 1
    names = NAMES[:n]
    flat = []
    for k in range(n):
        flat.append(names[k])
        if k < n - 1:
            flat.append(ops[k])
    expected = exprparse.parse_tokens(flat)

    def ev(t, env):
        if isinstance(t, str):
            return env[t]
        x, y = ev(t[1], env), ev(t[2], env)
        return {"+": x + y, "-": x - y, "*": x * y, "/": x / y}[t[0]]

    src = "export function f ( float a , float b , float c , float d ) -> float { return %s ; }\n" % " ".join(flat)
    ctx.count()
    c = adapter.compile_src(src, optimize=opt)
    if not c.ok:
        ctx.fail("value|rejected|" + c.why()[:80], "well-formed float chain rejected: %r: %s" % (src, c.why()), case)
        return
    program = adapter.link([c.ir])
    ctx.label("value-ctx:float-chain:opt=%d" % opt)
    ctx.nontrivial((src, opt))
    for vals in ((1.0, 3.0, 11.0, 7.0), (0.1, 0.7, 0.3, 1.3), (1e300, 1e200, 1e200, 1e-100), (5.0, 49.0, 0.3, 3.0)):
        env = dict(zip(("a", "b", "c", "d"), vals))
        try:
            want = ev(expected, env)
        except (ZeroDivisionError, OverflowError):
            continue
        ran = adapter.invoke(adapter.new_vm(program), "f", dict(env), budget=10000)
        if not ran.ok:
            ctx.fail("value|vm-exception|" + (adapter.exc_sig(ran.exc) if ran.exc else "diverged"), "%r with %r: VM failed %r" % (src, env, ran.exc), case)
            return
        if ran.value != want:
            ctx.fail("value|wrong-value|ctx=float-chain", "%r (optimize=%s) with %r: VM returned %r, the declared grouping %s gives %r" % (
                src, opt, env, ran.value, exprparse.show(expected), want), case)
            return


def wasm_chain_case(ctx, case):
    """operator chains inside the wasm backend's subset, executed by a wasm engine"""
    from .. import wasmeng
    ops = case
    n = len(ops) + 1
    names = NAMES[:n]
    flat = []
    for k in range(n):
        flat.append(names[k])
        if k < n - 1:
            flat.append(ops[k])
    expected = exprparse.parse_tokens(flat)
    others = [t for t in all_trees(names, list(ops)) if t != expected]
    inputs, _ = separating_inputs(expected, others, names)
    ctx.count()
    if not inputs:
        ctx.discard("no-separating-input (all groupings agree)")
        return
    src = layouts(embed("ret", flat), 0)
    c = adapter.compile_src(src, wasm=True)
    if not c.ok:
        ctx.discard("refused-by-the-wasm-backend")
        return
    try:
        data = adapter.wasm_bytes(c.result)
        inst = wasmeng.Instance(data)
    except Exception:
        ctx.discard("no-valid-wasm-module")   # validity is C07's concern
        return
    ctx.label("value-ctx:wasm")
    ctx.nontrivial(src)
    for env, ev in inputs:
        args = [env.get(k, 0) for k in ("a", "b", "c", "d")]
        kind, got = inst.call("f", args)
        if kind != "ok":
            continue
        if got != ev:
            ctx.fail("value|wrong-value|ctx=wasm", "%r with %r: the wasm module returns %r, the declared grouping %s gives %r" % (
                src, env, got, exprparse.show(expected), ev), case)
            return


def vector_chain_items():
    """terms `vec (* | /) scalar ...` joined by + / -; one or two terms"""
    items = []
    for k1 in (1, 2, 3):
        for ops1 in itertools.product("*/", repeat=k1):
            items.append((tuple(ops1), None, ()))
    for k1 in (0, 1, 2):
        for ops1 in itertools.product("*/", repeat=k1):
            for join in "+-":
                for k2 in (0, 1, 2):
                    for ops2 in itertools.product("*/", repeat=k2):
                        if k1 + k2 >= 1 and k1 + k2 <= 3:
                            items.append((tuple(ops1), join, tuple(ops2)))
    return items


def vector_chain_case(ctx, case):
    """`v * b / c`, `v - w * b / c` ... on int3 operands: component k of the result is the scalar chain evaluated
    with the declared grouping on component k of the vector operands"""
    ops1, join, ops2 = case
    scal = ["b", "c", "d", "e"]
    flat, used = ["v"], []
    for o in ops1:
        nm = scal[len(used)]
        used.append(nm)
        flat += [o, nm]
    if join is not None:
        flat += [join, "w"]
        for o in ops2:
            nm = scal[len(used)]
            used.append(nm)
            flat += [o, nm]
    expected = exprparse.parse_tokens(flat)
    leaves = [t for t in flat if t.isalpha()]
    others = [t for t in all_trees(leaves, [t for t in flat if not t.isalpha()]) if t != expected]
    ctx.count()
    vecs = {"v": [7, -8, 9], "w": [5, 11, -3]}
    envs = []
    for vals in itertools.product([2, 3, 5, -2], repeat=len(used)):
        envs.append(dict(zip(used, vals)))
    src = "export function f ( int3 v , int3 w , int b , int c , int d , int e ) -> int3 { return %s ; }\n" % " ".join(flat)
    c = adapter.compile_src(src)
    if not c.ok:
        ctx.fail("value|rejected|" + c.why()[:80], "well-formed vector chain rejected: %r: %s" % (src, c.why()), case)
        return
    program = adapter.link([c.ir])
    ctx.label("value-ctx:vector-chain")
    tested = 0
    for env in envs:
        want = []
        separates = False
        try:
            for k in range(3):
                e2 = dict(env, v=vecs["v"][k], w=vecs["w"][k])
                want.append(eval_tree(expected, e2))
                for o in others:
                    try:
                        if eval_tree(o, e2) != want[-1]:
                            separates = True
                    except OutOfDomain:
                        pass
        except OutOfDomain:
            continue
        if not separates:
            continue
        tested += 1
        args = {"v": list(vecs["v"]), "w": list(vecs["w"]), "b": 1, "c": 1, "d": 1, "e": 1}
        args.update(env)
        ran = adapter.invoke(adapter.new_vm(program), "f", args, budget=100000)
        if not ran.ok:
            ctx.fail("value|vm-exception|" + (adapter.exc_sig(ran.exc) if ran.exc else "diverged"), "%r with %r: VM failed %r" % (src, args, ran.exc), case)
            return
        if list(ran.value) != want:
            ctx.fail("value|wrong-value|ctx=vector-chain", "%r with %r: VM returned %r, the declared grouping %s gives %r" % (
                src, args, ran.value, exprparse.show(expected), want), case)
            return
        if tested >= 6:
            break
    if tested:
        ctx.nontrivial(src)
    else:
        ctx.discard("no-separating-input (all groupings agree)")


# -- generated long chains ------------------------------------------------------------

_OPERAND = st.sampled_from([
    ["a"], ["b"], ["c"], ["d"], ["1"], ["2"], ["7"], ["-2"], ["-7"], ["+3"], ["-1"], ["0x10"], ["010"], ["2.5"], ["1e1"], [".5"],
    ["g", "(", "a", ")"], ["g", "(", "a", "+", "b", ")"], ["t", "[", "0", "]"], ["t", "[", "a", "*", "b", "]"],
    ["s", ".", "x"], ["v", ".", "xy"], ["t", "[", "1", "]", ".", "y"], ["g", "(", "b", "<", "c", ")"],
])


@st.composite
def long_chain(draw):
    n = draw(st.integers(5, 8))
    level = None
    if draw(st.integers(0, 7)) == 0:
        # a very long run, mostly of operators of ONE precedence level (left-to-right grouping over dozens of operands)
        n = draw(st.integers(30, 70))
        level = draw(st.sampled_from([["-", "+"], ["-"], ["/", "*", "%"], ["/"], ["<", ">="], ["=="], ["&&"], OPS]))
    ops = [draw(st.sampled_from(level or OPS)) for _ in range(n - 1)]
    operands = [draw(_OPERAND) for _ in range(n)]
    # random properly nested parentheses: pick ranges one after another
    pattern = []
    for _ in range(draw(st.integers(0, 3))):
        i = draw(st.integers(0, n - 2))
        j = draw(st.integers(i + 1, n - 1))
        if j - i + 1 >= n:
            continue
        ok = True
        for (a, b) in pattern:
            disjoint = b < i or j < a
            nested = (a <= i and j <= b) or (i <= a and b <= j)
            if not (disjoint or nested) or (a, b) == (i, j):
                ok = False
        if ok:
            pattern.append((i, j))
    cname = draw(st.sampled_from(CONTEXTS))
    lay = draw(st.integers(0, 3))
    return (tuple(ops), tuple(map(tuple, operands)), tuple(pattern), cname, lay)


def long_case(ctx, case):
    ops, operands, pattern, cname, lay = case
    etoks = chain_tokens([list(o) for o in operands], list(ops), pattern)
    ctx.label("chain-len:%d" % len(ops) if len(ops) < 20 else "chain-len:>=30-operands")
    check_shape(ctx, etoks, cname, lay, case)


# -- driver -------------------------------------------------------------------------

def _pair_items():
    items = []
    for ops in itertools.product(OPS, repeat=2):
        for pat in paren_patterns(3):
            for cname in CONTEXTS:
                for lay in range(4):
                    items.append((ops, pat, cname, lay))
    return items


def _triple_items(full):
    pats = paren_patterns(4)
    items = []
    k = 0
    for ops in itertools.product(OPS, repeat=3):
        if full:
            for pat in pats:
                for cname in CONTEXTS:
                    for lay in range(4):
                        items.append((ops, pat, cname, lay))
            continue
        for cname in CONTEXTS:
            k += 1
            items.append((ops, (), cname, k % 4))
        for pat in pats[1:]:
            k += 1
            items.append((ops, pat, CONTEXTS[k % len(CONTEXTS)], (k // 7) % 4))
    return items


def run(R):
    R.enum("pairs-shape", _pair_items, shape_case)
    R.enum("triples-shape", lambda: _triple_items(not R.quick), shape_case, exhaustive=True)
    R.enum("pairs-value", lambda: [(ops, c) for ops in itertools.product(OPS, repeat=2)
                                   for c in ("ret", "assign", "init", "cond", "arg", "arg2")], value_case)
    if R.quick:
        R.enum("triples-value", lambda: [(ops, "ret") for ops in itertools.product(OPS, repeat=3)][::3],
               value_case, exhaustive=False)
    else:
        R.enum("triples-value", lambda: [(ops, c) for ops in itertools.product(OPS, repeat=3)
                                         for c in ("ret", "assign", "cond")], value_case)
    R.enum("compound-value", lambda: [(cop, ops, par) for cop in "+-*/" for n in (1, 2)
                                      for ops in itertools.product(OPS, repeat=n) for par in (False, True)], compound_case)
    R.require("value-ctx:compound")
    R.enum("paired-groupings", lambda: [(ops, pat, pf) for n in (2, 3) for ops in itertools.product(OPS, repeat=n)
                                        for pat in paren_patterns(n + 1)[1:] for pf in (False, True)][::(5 if R.quick else 1)], paired_case,
           exhaustive=not R.quick)
    R.enum("vector-chain-value", vector_chain_items, vector_chain_case)
    R.enum("signed-literal-value", lambda: [(ops, pos, sp) for n_ in (2, 3) for ops in itertools.product(OPS, repeat=n_)
                                            for pos in range(n_ + 1) for sp in ("-2", "+3")][::(4 if R.quick else 1)], signed_literal_case,
           exhaustive=not R.quick)
    R.enum("float-chain-value", lambda: [(ops, o) for n_ in (2, 3) for ops in itertools.product("+-*/", repeat=n_) for o in (False, True)],
           float_chain_case)
    WOPS = ["+", "-", "*", "/", "==", "<", ">"]
    R.enum("wasm-chain-value", lambda: [ops for n_ in (2, 3) for ops in itertools.product(WOPS, repeat=n_)], wasm_chain_case)
    for l in ("value-ctx:signed-literal", "value-ctx:float-chain:opt=1", "value-ctx:wasm"):
        R.require(l)
    R.require("value-ctx:paired-groupings")
    R.require("value-ctx:vector-chain")
    R.require("chain-len:>=30-operands")
    R.hyp("long-chains", long_chain(), long_case, examples=R.pick(250, 4000))
    for c in CONTEXTS:
        R.require("ctx:" + c)
    for l in range(4):
        R.require("layout:%d" % l)
    R.require("parenthesised")
