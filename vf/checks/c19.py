"""C19 - wasm writer: integers, names and section sizes decode to what was written."""
from hypothesis import strategies as st

from .. import adapter, wasmref, wasmeng
from ..runner import Violation

LEVEL = "exploration"
RULE = ("unsigned: PackInteger(v) decoded by a spec ULEB128(u32) decoder must give v (all of 0..65535, "
        "every 2^k+d and 2^(7k)+d, d in -2..2, plus random u32); signed: the immediate bytes of every "
        "i32.const in a module compiled from `return K` / `return a + K` decoded by a spec SLEB128(s32) "
        "decoder must give K (every 7-bit-group and sign boundary of both signs, plus random s32); "
        "names/sizes: modules built through the nsl.WebAssembly API with generated unicode export names "
        "and body lengths crossing 127 / 16383 bytes must decode strictly (exact section and body sizes) "
        "to the names and indices written. Non-trivial = encoding needs >= 2 bytes or its top payload "
        "bit (0x40 of the last byte) is set; distinct by value / module bytes.")
ASSUMPTIONS = [
    "vf/wasmref.py implements ULEB128/SLEB128 and the section framing of the WebAssembly 1.0 binary format correctly "
    "(cross-checked against wasmtime on every module that both accept or reject)",
    "i32.const immediates are located by decoding the emitted function body; a body that cannot be decoded counts as 'not recovered'",
]


def _nontrivial_bytes(b):
    return len(b) >= 2 or bool(b[-1] & 0x40)


def _check_unsigned(ctx, v):
    from nsl import WebAssembly
    ctx.count()
    enc = WebAssembly.PackInteger(v)
    if _nontrivial_bytes(enc):
        ctx.nontrivial(v)
    if ctx.want_sample() and v > 127:
        ctx.sample({"value": v, "bytes": enc.hex()})
    try:
        got = wasmref.uleb_decode_all(enc, 32)
    except wasmref.Malformed as e:
        ctx.fail("packint|u32|malformed", "PackInteger(%d) = %s is not a valid ULEB128(u32): %s" % (v, enc.hex(), e), v)
        return
    if got != v:
        ctx.fail("packint|u32|wrong-value", "PackInteger(%d) = %s decodes to %d" % (v, enc.hex(), got), v)


def unsigned_batch(ctx, batch):
    for v in batch:
        _check_unsigned(ctx, v)


def unsigned_one(ctx, v):
    _check_unsigned(ctx, v)


def _spell(k, style):
    if k < 0 or style == "dec":
        return str(k)
    if style == "hex":
        return hex(k)
    if style == "oct":
        return "0" + oct(k)[2:] if k else "0"
    return str(k)


def const_case(ctx, case):
    """case = (K, style, form) ; form: 'ret' | 'add'"""
    k, style, form = case
    lit = _spell(k, style)
    want = k
    if form == "ret":
        src = "export function f() -> int { return %s; }" % lit
    elif form == "ucast":
        # a constant of type uint: `uint ( K )` folded by the optimiser; as an i32 immediate it is the 32-bit pattern
        src = "export function f(uint a) -> uint { return a + uint ( %s ) ; }" % lit
        want = k if k < (1 << 31) else k - (1 << 32)
    else:
        src = "export function f(int a) -> int { return a + %s; }" % lit
    ctx.count()
    c = adapter.compile_src(src, wasm=True, optimize=(form == "ucast"))
    if not c.ok:
        ctx.discard("refused:" + c.why()[:60])
        return
    try:
        data = adapter.wasm_bytes(c.result)
    except Exception as e:
        ctx.discard("write-refused:" + type(e).__name__)
        return
    ctx.label("form:" + form)
    ctx.label("style:" + style)
    try:
        m = wasmref.decode(data, strict=False)
    except wasmref.Malformed as e:
        ctx.fail("i32const|undecodable", "module for %r cannot be decoded: %s\nbytes=%s" % (src, e, data.hex()), case)
        return
    consts = [f for f in m.fields if f[0] == "i32.const"]
    raw = b"".join(f[3] for f in consts)
    if consts and _nontrivial_bytes(consts[0][3]):
        ctx.nontrivial(k)
    if ctx.want_sample() and abs(k) > 63:
        ctx.sample({"source": src, "i32.const bytes": raw.hex()})
    vals = [f[2] for f in consts]
    if vals != [want]:
        ctx.fail("i32const|wrong-value",
                 "source %r: i32.const immediates decode (SLEB128) to %r, expected [%d]; raw=%s" % (
                     src, vals, want, raw.hex()), case)
        return
    # engine view, only when the module is valid at all (validity itself is C07)
    try:
        ok, msg, _ = wasmeng.validate_both(data)
    except wasmeng.ValidatorDisagreement:
        raise
    if ok and form == "ret" and wasmeng.HAVE:
        kind, val = wasmeng.Instance(data).call("f", [])
        ctx.label("engine-executed")
        if kind != "ok" or val != k:
            ctx.fail("i32const|engine-value", "source %r: engine returned %r %r" % (src, kind, val), case)


def _boundaries_unsigned():
    vals = set(range(0, 1 << 16))
    for k in range(0, 33):
        for d in range(-2, 3):
            v = (1 << k) + d
            if 0 <= v < (1 << 32):
                vals.add(v)
    vals.add((1 << 32) - 1)
    return sorted(vals)


def _boundaries_signed():
    vals = set(range(-300, 301))
    for k in range(0, 32):
        for d in range(-2, 3):
            for s in (1, -1):
                v = s * (1 << k) + d
                if -(1 << 31) <= v < (1 << 31):
                    vals.add(v)
    vals.add(-(1 << 31))
    vals.add((1 << 31) - 1)
    return sorted(vals)


# --- names / sizes through the writer API -----------------------------------

_fn = st.tuples(
    st.integers(0, 3),  # params
    st.integers(1, 3),  # extra locals (same type: i32)
    st.sampled_from([0, 1, 5, 30, 31, 32, 33, 40, 200, 4090, 4095, 4096, 4100]),  # get/set pairs
    st.text(max_size=12) | st.text(alphabet="aé€𝄞\u0000 \"", max_size=40)
    | st.integers(120, 135).map(lambda n: "n" * n),
)
_mod = st.lists(_fn, min_size=1, max_size=5, unique_by=lambda f: f[3])


def api_module(ctx, fns):
    from nsl import WebAssembly as W
    import io
    ctx.count()
    m = W.Module()
    for i, (npar, nloc, pairs, name) in enumerate(fns):
        ti = m.AddFunctionType(W.FunctionType([W.ValueType.i32] * npar, [W.ValueType.i32]))
        fi = m.AddFunction(ti)
        m.AddExport(W.Export(fi, name))
        code = W.Code()
        for _ in range(nloc):
            code.AddLocal(W.Local(W.ValueType.i32))
        for _ in range(pairs):
            code.AddInstruction(W.Instruction(W.opcodes["local.get"], (npar,)))
            code.AddInstruction(W.Instruction(W.opcodes["local.set"], (npar + nloc - 1,)))
        code.AddInstruction(W.Instruction(W.opcodes["local.get"], (npar,)))
        code.AddInstruction(W.Instruction(W.opcodes["return"]))
        m.AddCode(code)
    buf = io.BytesIO()
    m.WriteTo(buf)
    data = buf.getvalue()
    body_lens = [4 * f[2] + 6 for f in fns]
    if any(l > 127 for l in body_lens) or any(len(f[3].encode()) > 127 for f in fns):
        ctx.nontrivial(data)
    if any(l > 16383 for l in body_lens):
        ctx.label("body>16383")
    if any(127 < l <= 16383 for l in body_lens):
        ctx.label("body>127")
    if any(ord(ch) > 127 for f in fns for ch in f[3]):
        ctx.label("non-ascii-name")
    if ctx.want_sample():
        ctx.sample({"functions": [(a, b, c, d) for a, b, c, d in fns], "bytes": len(data)})
    try:
        dm = wasmref.decode(data, strict=True)
    except wasmref.Malformed as e:
        ctx.fail("api|undecodable", "module built from %r is malformed: %s" % (fns, e), fns)
        return
    names = [(nm, idx) for nm, kind, idx in dm.exports]
    want = [(f[3], i) for i, f in enumerate(fns)]
    if names != want:
        ctx.fail("api|names", "exports decode to %r, written %r" % (names, want), fns)
        return
    for f in dm.fields:
        if f[1] == "u":
            try:
                if wasmref.uleb_decode_all(f[3], 32) != f[2]:
                    ctx.fail("api|field", "field %s" % (f,), fns)
            except wasmref.Malformed as e:
                ctx.fail("api|field", "field %s: %s" % (f, e), fns)
    ok, msg, _ = wasmeng.validate_both(data)
    if not ok:
        ctx.fail("api|invalid", "module built from %r is invalid: %s" % (fns, msg), fns)


# --- immediates of both flavours side by side, many locals, many functions -------------------------------------

_BOUND = [0, 1, 63, 64, 65, 100, 127, 128, 129, 200, 255, 256, 8191, 8192, 8193, 16383, 16384, 16385]
_imm_fn = st.tuples(
    st.sampled_from([1, 2, 66, 130, 260]),                               # number of i32 locals
    st.lists(st.tuples(st.sampled_from(["get", "set", "const"]),
                       st.one_of(st.sampled_from(_BOUND), st.integers(0, 300), st.integers(-(1 << 31), (1 << 31) - 1))),
             min_size=1, max_size=12),
)
_imm_mod = st.tuples(st.lists(_imm_fn, min_size=1, max_size=4), st.sampled_from([0, 0, 0, 126, 127, 128, 130, 255, 256, 257]))


def api_immediates(ctx, case):
    """a module written through the API whose bodies mix unsigned immediates (local indices) and signed ones
    (i32.const) of equal values, with up to 260 locals, preceded by up to 257 padding functions (so type and
    function indices cross 127 / 255): every immediate must decode to exactly what was written"""
    from nsl import WebAssembly as W
    import io
    fns, padding = case
    ctx.count()
    m = W.Module()
    written = []
    try:
        for _ in range(padding):
            ti = m.AddFunctionType(W.FunctionType([], [W.ValueType.i32]))
            m.AddFunction(ti)
            code = W.Code()
            code.AddInstruction(W.Instruction(W.opcodes["i32.const"], (7,)))
            code.AddInstruction(W.Instruction(W.opcodes["return"]))
            m.AddCode(code)
        for i, (nloc, instrs) in enumerate(fns):
            ti = m.AddFunctionType(W.FunctionType([], [W.ValueType.i32]))
            fi = m.AddFunction(ti)
            m.AddExport(W.Export(fi, "f%d" % i))
            code = W.Code()
            for _ in range(nloc):
                code.AddLocal(W.Local(W.ValueType.i32))
            seq = []
            for kind, v in instrs:
                if kind == "const":
                    v = max(-(1 << 31), min((1 << 31) - 1, v))
                    code.AddInstruction(W.Instruction(W.opcodes["i32.const"], (v,)))
                    code.AddInstruction(W.Instruction(W.opcodes["local.set"], (0,)))
                    seq += [("i32.const", v), ("local.set", 0)]
                else:
                    idx = abs(v) % nloc
                    if kind == "get":
                        code.AddInstruction(W.Instruction(W.opcodes["local.get"], (idx,)))
                        code.AddInstruction(W.Instruction(W.opcodes["local.set"], (0,)))
                        seq += [("local.get", idx), ("local.set", 0)]
                    else:
                        code.AddInstruction(W.Instruction(W.opcodes["local.get"], (0,)))
                        code.AddInstruction(W.Instruction(W.opcodes["local.set"], (idx,)))
                        seq += [("local.get", 0), ("local.set", idx)]
            code.AddInstruction(W.Instruction(W.opcodes["local.get"], (0,)))
            code.AddInstruction(W.Instruction(W.opcodes["return"]))
            seq += [("local.get", 0), ("return", None)]
            m.AddCode(code)
            written.append(seq)
        buf = io.BytesIO()
        m.WriteTo(buf)
    except Exception as e:
        ctx.fail("api|writer-exception|" + type(e).__name__, "the writer raised %r for %r" % (e, case), case)
        return
    data = buf.getvalue()
    if padding >= 127:
        ctx.label("functions>127")
    if any(n > 64 for n, _ in fns):
        ctx.label("locals>64")
    ctx.nontrivial(data)
    try:
        dm = wasmref.decode(data, strict=True)
    except wasmref.Malformed as e:
        ctx.fail("api|undecodable", "module built from %r is malformed: %s" % (case, e), case)
        return
    if dm.funcs != list(range(padding + len(fns))):
        ctx.fail("api|type-indices", "function section decodes to type indices %r..., written 0..%d" % (dm.funcs[:8], padding + len(fns) - 1), case)
        return
    for i, seq in enumerate(written):
        body = dm.codes[padding + i]
        got = [(ins.name, ins.imm) for ins in body.instrs if ins.name != "end"]
        if got != seq:
            bad = next((k for k, (a, b) in enumerate(zip(got, seq)) if a != b), min(len(got), len(seq)))
            ctx.fail("api|immediate", "function %d, instruction %d decodes to %r, written %r (module %r)" % (
                i, bad, got[bad] if bad < len(got) else None, seq[bad] if bad < len(seq) else None, case), case)
            return
    ok, msg, _ = wasmeng.validate_both(data)
    if not ok:
        ctx.fail("api|invalid", "module built from %r is invalid: %s" % (case, msg), case)


def run(R):
    R.hyp("api-immediates", _imm_mod, api_immediates, examples=R.pick(60, 1500))
    R.require("functions>127")
    R.require("locals>64")
    ub = _boundaries_unsigned()
    batches = [ub[i:i + 512] for i in range(0, len(ub), 512)]
    R.enum("unsigned-boundaries", batches, unsigned_batch, exhaustive=True)
    R.hyp("unsigned-random", st.integers(0, (1 << 32) - 1), unsigned_one,
          examples=R.pick(1500, 60000))
    sb = _boundaries_signed()
    items = [(k, "dec", form) for k in sb for form in ("ret", "add")]
    items += [(k, sty, "ret") for k in sb if k >= 0 for sty in ("hex", "oct")]
    ucast = [(k, "dec", "ucast") for k in sb if k >= 0] + [(k, "dec", "ucast") for k in (1 << 31, (1 << 31) + 1, 3000000000, (1 << 32) - 1)]
    if R.quick:
        # quick: every boundary value as `return K` (decimal) + the other spellings/forms thinned
        keep = [it for it in items if it[1] == "dec" and it[2] == "ret"]
        rest = [it for it in items if not (it[1] == "dec" and it[2] == "ret")]
        items = keep + rest[::4]
    items += ucast
    R.enum("i32const-boundaries", items, const_case, exhaustive=not R.quick)
    R.hyp("i32const-random",
          st.tuples(st.integers(-(1 << 31), (1 << 31) - 1), st.sampled_from(["dec", "hex", "oct"]),
                    st.sampled_from(["ret", "add"])),
          const_case, examples=R.pick(60, 2000))
    R.hyp("api-names-sizes", _mod, api_module, examples=R.pick(40, 1500))
