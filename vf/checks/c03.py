"""C03 - calls pass arguments by value into isolated frames and reach the chosen overload."""
from .. import genmod, genx
from . import c01

LEVEL = "exploration"
RULE = ("Hypothesis programs (genx.calls_case): an exported caller plus 1-4 helpers: callees that assign, compound-assign, "
        "++/-- their scalar parameters and write elements / swizzles / rows of vector and matrix parameters before using "
        "them; nested calls g(h(a)), repeated calls, calls inside loops and conditions, direct recursion bounded by a "
        "decreasing int parameter (parameters re-read after the recursive call returned), overloads by int/float and by "
        "vector type with exactly matching arguments; the caller reads its own parameters and locals after the calls. "
        "Arguments are scalars, float2/float3/int2 vectors and float3x3 matrices. Oracle: reference interpreter with "
        "explicit frames and value copies (returned value, globals, host argument objects untouched). A second part "
        "(vf/genmod.py) puts callees into imported modules, with overload sets split between importer and imported "
        "module, and compares the linked program with the same functions compiled as one module. Non-trivial = "
        "the executed trace contains a callee writing one of its parameters followed by the caller reading one of its "
        "own parameters, or recursion depth >= 2; distinct by (source, input).")
ASSUMPTIONS = [
    "vf/interp.py: call = evaluate arguments, bind copies in a fresh frame, run the statically chosen overload",
    "arrays and structs are not passed (the statement names scalar / vector / matrix arguments)",
    "call sites match exactly one overload without conversions (ranking corner cases belong to C10)",
]

NOTES = ["call", "call-depth>=2", "callee-param-write", "own-param-read-after-call",
         "own-param-read-after-callee-wrote-its-param", "vecmat-op", "swizzle-write", "element-write"]


def nontrivial(tr):
    return tr.get("own-param-read-after-callee-wrote-its-param", 0) >= 1 or tr.get("call-depth>=2", 0) >= 1


def check(ctx, case):
    names = [f.name for f in case.prog.funcs]
    if len(set(names)) != len(names):
        ctx.label("program-with-overloads")
    if any(n.startswith("r") for n in names):
        ctx.label("program-with-recursion")
    c01.check_case(ctx, case, prop="C03", nontrivial=nontrivial, extra_labels=NOTES, check_args=True)


def across_modules(ctx, case):
    """the callee selected by the static argument types may live in an imported module (overload sets split over
    modules): same oracle as C16 - the multi-module program behaves like the same functions in one module"""
    from . import c16
    names = [f.name for f in case.prog.funcs]
    c16.check(ctx, case)
    if len(set(names)) != len(names):
        ctx.label("overload-set-split-over-modules")


def run(R):
    R.hyp("calls-across-modules", genmod.modules_case(), across_modules, examples=R.pick(60, 1200))
    R.require("overload-set-split-over-modules")
    R.hyp("calls", genx.calls_case(), check, examples=R.pick(250, 5000), shrink="ast")
    for l in NOTES[:5] + ["program-with-overloads", "program-with-recursion"]:
        R.require(l)
