"""C03 - calls pass arguments by value into isolated frames and reach the chosen overload."""
from .. import genmod, genx
from . import c01

LEVEL = "exploration"
RULE = ("Hypothesis programs (genx.calls_case): an exported caller plus 1-4 helpers: callees that assign, compound-assign, "
        "++/-- their scalar parameters and write elements / swizzles / rows of vector and matrix parameters before using "
        "them; nested calls g(h(a)), repeated calls, calls inside loops and conditions, direct recursion bounded by a "
        "decreasing int parameter (parameters re-read after the recursive call returned), overloads by int/float and by "
        "vector type with exactly matching arguments; the caller reads its own parameters and locals after the calls. "
        "Arguments are scalars, float2/float3/int2 vectors and float3x3 matrices. Oracle: reference interpreter with "
        "explicit frames and value copies (returned value, globals, host argument objects untouched). A second part "
        "(vf/genmod.py) puts callees into imported modules, with overload sets split between importer and imported "
        "module, and compares the linked program with the same functions compiled as one module. A third part is "
        "metamorphic: a chain of nested calls f(g(h(e))) (int/float parameters and results, so arguments are converted "
        "at each boundary) must behave exactly like the same calls made one after the other through locals of the "
        "result types. Non-trivial = "
        "the executed trace contains a callee writing one of its parameters followed by the caller reading one of its "
        "own parameters, or recursion depth >= 2; distinct by (source, input).")
ASSUMPTIONS = [
    "vf/interp.py: call = evaluate arguments, bind copies in a fresh frame, run the statically chosen overload",
    "arrays and structs are not passed (the statement names scalar / vector / matrix arguments)",
    "call sites match exactly one overload without conversions (ranking corner cases belong to C10)",
]

NOTES = ["call", "call-depth>=2", "callee-param-write", "own-param-read-after-call",
         "own-param-read-after-callee-wrote-its-param", "vecmat-op", "swizzle-write", "element-write"]


def nontrivial(tr):
    return tr.get("own-param-read-after-callee-wrote-its-param", 0) >= 1 or tr.get("call-depth>=2", 0) >= 1


def check(ctx, case):
    names = [f.name for f in case.prog.funcs]
    if len(set(names)) != len(names):
        ctx.label("program-with-overloads")
    if any(n.startswith("r") for n in names):
        ctx.label("program-with-recursion")
    c01.check_case(ctx, case, prop="C03", nontrivial=nontrivial, extra_labels=NOTES, check_args=True)


def across_modules(ctx, case):
    """the callee selected by the static argument types may live in an imported module (overload sets split over
    modules): same oracle as C16 - the multi-module program behaves like the same functions in one module"""
    from . import c16
    names = [f.name for f in case.prog.funcs]
    c16.check(ctx, case)
    if len(set(names)) != len(names):
        ctx.label("overload-set-split-over-modules")


# -- metamorphic: naming a nested call by a local of its result type does not change anything -----------------

HELPERS = {
    # name: (parameter type, result type, body)
    "ii": ("int", "int", "return n * 2 + 1 ;"), "if_": ("int", "float", "return n * 0.5 ;"),
    "ff": ("float", "float", "return n * 1.5 - 0.25 ;"), "fi": ("float", "int", "if ( n > 2.0 ) { return 7 ; } return 3 ;"),
    "iu": ("int", "int", "n = n + 3 ; return n - 1 ;"), "fu": ("float", "float", "n = n / 4.0 ; return n ;"),
}


class NestCase:
    def __init__(self, chain, arg, inputs):
        self.chain, self.arg, self.inputs = chain, arg, inputs   # chain: helper names, outermost first

    def sources(self):
        pre = "".join("function %s ( %s n ) -> %s { %s }\n" % (nm, HELPERS[nm][0], HELPERS[nm][1], HELPERS[nm][2])
                      for nm in sorted(set(self.chain)))
        ret = HELPERS[self.chain[0]][1]
        nested = self.arg
        for nm in reversed(self.chain):
            nested = "%s ( %s )" % (nm, nested)
        a = pre + "export function f ( int a , float x ) -> %s { return %s ; }\n" % (ret, nested)
        stmts, cur = [], self.arg
        for k, nm in enumerate(reversed(self.chain)):
            stmts.append("%s t%d = %s ( %s ) ;" % (HELPERS[nm][1], k, nm, cur))
            cur = "t%d" % k
        b = pre + "export function f ( int a , float x ) -> %s { %s return %s ; }\n" % (ret, " ".join(stmts), cur)
        return a, b

    def show(self):
        a, b = self.sources()
        return "// nested:\n%s// hoisted:\n%s// inputs=%r" % (a, b, self.inputs)


def nest_cases():
    from hypothesis import strategies as st
    return st.builds(NestCase, st.lists(st.sampled_from(sorted(HELPERS)), min_size=2, max_size=4).map(tuple),
                     st.sampled_from(["a", "x", "a + 1", "x * 0.5", "x + a", "2.75", "3"]),
                     st.lists(st.tuples(st.integers(-9, 9), st.integers(-40, 40).map(lambda n: n / 8.0)), min_size=2, max_size=3))


def nest_check(ctx, case):
    from .. import adapter
    from ..compare import exact
    a, b = case.sources()
    ctx.count()
    ca, cb = adapter.compile_src(a), adapter.compile_src(b)
    if ca.ok != cb.ok:
        ctx.fail("nested-vs-hoisted|accept-vs-reject", "one of the two spellings is rejected (nested: %s, hoisted: %s)\n%s" % (
            ca.why() if not ca.ok else "accepted", cb.why() if not cb.ok else "accepted", case.show()), case)
        return
    if not ca.ok:
        ctx.discard("both-rejected")
        return
    pa, pb = adapter.link([ca.ir]), adapter.link([cb.ir])
    conv = any(HELPERS[o][0] != (HELPERS[i][1]) for o, i in zip(case.chain, case.chain[1:]))
    ctx.label("nested-call-with-conversion" if conv else "nested-call")
    for ai, xi in case.inputs:
        ra = adapter.invoke(adapter.new_vm(pa), "f", {"a": ai, "x": xi}, budget=20000)
        rb = adapter.invoke(adapter.new_vm(pb), "f", {"a": ai, "x": xi}, budget=20000)
        if ra.ok != rb.ok or (ra.ok and not exact(ra.value, rb.value)):
            ctx.fail("nested-vs-hoisted|value", "f(a=%r, x=%r): nested calls give %r, the same calls through locals give %r\n%s" % (
                ai, xi, ra.value if ra.ok else ra.exc, rb.value if rb.ok else rb.exc, case.show()), case)
            return
        if ra.ok:
            ctx.nontrivial((a, ai, xi))


def run(R):
    R.hyp("nested-calls-hoisted", nest_cases, nest_check, examples=R.pick(60, 1500))
    R.require("nested-call-with-conversion")
    R.hyp("calls-across-modules", genmod.modules_case(), across_modules, examples=R.pick(60, 300))
    R.require("overload-set-split-over-modules")
    R.hyp("calls", genx.calls_case(), check, examples=R.pick(250, 5000), shrink="ast")
    for l in NOTES[:5] + ["program-with-overloads", "program-with-recursion"]:
        R.require(l)
