"""C14 - every compiled IR module is well-formed."""
import os
import pickle
import shutil
import tempfile

from .. import adapter, allgen, genmod, irwf

LEVEL = "exploration"
RULE = ("Every module produced from the union of all program generators (scalar core, vectors/matrices, call graphs, "
        "store/load-dense shapes, the loosely typed whole-language generator), at BOTH optimisation settings, linked "
        "as a program, is checked by vf/irwf.py: references unique within a function (instructions, constants, "
        "blocks); every operand - read through the public accessors of each instruction class, not through Uses / "
        "ReplaceUses - is a constant registered with that function or an instruction object that is still in a block "
        "of the function, produces a value (not a store / branch / return) and is defined on EVERY control-flow path "
        "reaching the use (forward must-be-defined dataflow over the instruction-level CFG the VM executes: flat "
        "layout, fall-through between blocks, mid-block branches, returns); every branch names blocks of the same "
        "function, both targets when conditional; every call names a function of the linked program with the same "
        "number of arguments - the last also for multi-module programs (vf/genmod.py: chains, diamonds, stars) linked from the root module alone. Non-trivial = a function with >= 3 basic blocks, or one in which the optimiser removed or "
        "replaced an instruction; distinct by (source, optimisation setting).")
ASSUMPTIONS = [
    "the instruction-level CFG mirrors VM.__Execute (blocks laid out in order, fall-through, branch, return)",
    "instructions that no path reaches are exempt from the defined-before-use condition (there is no path to violate)",
]


def check(ctx, case):
    src = case.source()
    listings = {}
    for opt in (False, True):
        ctx.count()
        c = adapter.compile_src(src, optimize=opt)
        if not c.ok:
            ctx.discard("not-accepted:%s:opt=%s" % (c.stage, opt))
            continue
        listings[opt] = adapter.listing(c.ir)
        try:
            program = adapter.link([c.ir])
            funcs = program.Functions
        except Exception as e:
            ctx.discard("does-not-link:" + type(e).__name__)
            funcs = None
        big = any(len(f.BasicBlocks) >= 3 for f in c.ir.Functions.values())
        changed = opt and listings.get(False) is not None and listings[False] != listings[True]
        if big or changed:
            ctx.nontrivial((src, opt))
        if changed:
            ctx.label("optimiser-changed-the-module")
        if big:
            ctx.label("function-with->=3-blocks")
        if any(type(i).__name__ == "CallInstruction" for f in c.ir.Functions.values() for i in f.Instructions):
            ctx.label("module-with-calls")
        problems = irwf.check_module(c.ir, funcs)
        if ctx.want_sample() and changed:
            ctx.sample({"source": src, "optimize": opt, "listing": listings[opt][:1500]})
        if problems:
            kind, msg = problems[0]
            ctx.fail("%s|opt=%s" % (kind, opt), "%s\n(%d problem(s) in total)\n%s\n--- listing (optimize=%s) ---\n%s" % (
                msg, len(problems), src, opt, listings[opt]), case)
            return


POOL = [
    # a trailing parameter with the __optional modifier, and a call that leaves it out
    "function h ( int a , __optional int b ) -> int { return a ; }\nexport function f ( int p ) -> int { return h ( p ) + h ( p , 2 ) ; }\n",
    "function h ( float a , __optional float b , __optional int c ) -> float { return a ; }\nexport function f ( float p ) -> float { return h ( p ) ; }\n",
    # a for loop without increment clause that is continued
    "export function f ( int p ) -> int { int s = 0 ; for ( int i = 0 ; i < 4 ; ) { i = i + 1 ; if ( i == 2 ) continue ; s = s + i ; } return s + p ; }\n",
    "export function f ( int p ) -> int { int s = 0 ; for ( ; ; ) { s = s + 1 ; if ( s < 3 ) continue ; break ; } return s + p ; }\n",
]


class PoolCase:
    def __init__(self, src):
        self.src = src

    def source(self):
        return self.src

    def show(self):
        return self.src


def recompiled_check(ctx, cases):
    """two generated multi-module programs under the same module names, one after the other in ONE directory, each
    linked with Linker() (the default loader): the second linked program must be well-formed with respect to ITS modules"""
    work = tempfile.mkdtemp(prefix="c14r_")
    old = os.getcwd()
    os.chdir(work)
    try:
        for case in cases:
            linked_check(ctx, case, in_dir=True, default_loader=True)
    finally:
        os.chdir(old)
        shutil.rmtree(work, ignore_errors=True)


def linked_check(ctx, case, in_dir=False, default_loader=False):
    """multi-module program (import DAG: chains, diamonds, stars, siblings): every module is compiled separately at
    both optimisation settings, stored as <name>.nslir, only the root is added to the linker; every function of the
    LINKED program must be well-formed, in particular every call names a function of the linked program"""
    from nsl import LinearIR
    work = None
    old = os.getcwd()
    if not in_dir:
        work = tempfile.mkdtemp(prefix="c14_")
        os.chdir(work)
    try:
        for opt in (False, True):
            ctx.count()
            ok = True
            for k, m in enumerate(case.modules):
                c = adapter.compile_src(case.module_source(k), optimize=opt)
                if not c.ok:
                    ctx.discard("module-not-accepted:%s" % c.stage)
                    ok = False
                    break
                if "/" in m["name"]:
                    os.makedirs(os.path.dirname(m["name"]), exist_ok=True)
                with open(m["name"] + ".nslir", "wb") as fh:
                    pickle.dump(c.ir, fh)
            if not ok:
                continue
            try:
                with adapter.quiet():
                    linker = LinearIR.Linker() if default_loader else LinearIR.Linker(loader=LinearIR.FilesystemModuleLoader())
                    with open(case.modules[-1]["name"] + ".nslir", "rb") as fh:
                        linker.AddModule(pickle.load(fh))
                    program = linker.Link()
            except Exception as e:
                ctx.discard("does-not-link:" + type(e).__name__)
                continue
            ctx.label("linked-program:" + case.shape)
            if default_loader:
                ctx.label("linked-with-the-default-loader")
            ctx.nontrivial((case.show(), opt))
            for name, fn in sorted(program.Functions.items()):
                problems = irwf.check_function(fn, program.Functions)
                if problems:
                    kind, msg = problems[0]
                    ctx.fail("linked|%s|opt=%s" % (kind, opt), "function %s of the linked program (functions: %r): %s\n%s" % (
                        name, sorted(program.Functions), msg, case.show()), case)
                    return
    finally:
        if work is not None:
            os.chdir(old)
            shutil.rmtree(work, ignore_errors=True)


def run(R):
    from hypothesis import strategies as st
    R.enum("pool", [PoolCase(s) for s in POOL], check, exhaustive=False)
    R.hyp("linked-programs-recompiled", st.lists(genmod.modules_case(n_inputs=0), min_size=2, max_size=2), recompiled_check,
          examples=R.pick(20, 200))
    R.require("linked-with-the-default-loader")
    R.hyp("linked-programs", genmod.modules_case(n_inputs=0), linked_check, examples=R.pick(80, 500))
    for sh in ("star", "diamond", "chain3"):
        R.require("linked-program:" + sh)
    R.hyp("all-generators", allgen.any_case(n_inputs=0), check, examples=R.pick(300, 6000), shrink="ast")
    R.hyp("store-load-shapes", allgen.opt_shapes_case(n_inputs=0), check, examples=R.pick(150, 3000), shrink="ast")
    for l in ("optimiser-changed-the-module", "function-with->=3-blocks", "module-with-calls"):
        R.require(l)
