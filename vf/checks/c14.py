"""C14 - every compiled IR module is well-formed."""
from .. import adapter, allgen, irwf

LEVEL = "exploration"
RULE = ("Every module produced from the union of all program generators (scalar core, vectors/matrices, call graphs, "
        "store/load-dense shapes, the loosely typed whole-language generator), at BOTH optimisation settings, linked "
        "as a program, is checked by vf/irwf.py: references unique within a function (instructions, constants, "
        "blocks); every operand - read through the public accessors of each instruction class, not through Uses / "
        "ReplaceUses - is a constant registered with that function or an instruction object that is still in a block "
        "of the function, produces a value (not a store / branch / return) and is defined on EVERY control-flow path "
        "reaching the use (forward must-be-defined dataflow over the instruction-level CFG the VM executes: flat "
        "layout, fall-through between blocks, mid-block branches, returns); every branch names blocks of the same "
        "function, both targets when conditional; every call names a function of the linked program with the same "
        "number of arguments. Non-trivial = a function with >= 3 basic blocks, or one in which the optimiser removed or "
        "replaced an instruction; distinct by (source, optimisation setting).")
ASSUMPTIONS = [
    "the instruction-level CFG mirrors VM.__Execute (blocks laid out in order, fall-through, branch, return)",
    "instructions that no path reaches are exempt from the defined-before-use condition (there is no path to violate)",
]


def check(ctx, case):
    src = case.source()
    listings = {}
    for opt in (False, True):
        ctx.count()
        c = adapter.compile_src(src, optimize=opt)
        if not c.ok:
            ctx.discard("not-accepted:%s:opt=%s" % (c.stage, opt))
            continue
        listings[opt] = adapter.listing(c.ir)
        try:
            program = adapter.link([c.ir])
            funcs = program.Functions
        except Exception as e:
            ctx.discard("does-not-link:" + type(e).__name__)
            funcs = None
        big = any(len(f.BasicBlocks) >= 3 for f in c.ir.Functions.values())
        changed = opt and listings.get(False) is not None and listings[False] != listings[True]
        if big or changed:
            ctx.nontrivial((src, opt))
        if changed:
            ctx.label("optimiser-changed-the-module")
        if big:
            ctx.label("function-with->=3-blocks")
        if any(type(i).__name__ == "CallInstruction" for f in c.ir.Functions.values() for i in f.Instructions):
            ctx.label("module-with-calls")
        problems = irwf.check_module(c.ir, funcs)
        if ctx.want_sample() and changed:
            ctx.sample({"source": src, "optimize": opt, "listing": listings[opt][:1500]})
        if problems:
            kind, msg = problems[0]
            ctx.fail("%s|opt=%s" % (kind, opt), "%s\n(%d problem(s) in total)\n%s\n--- listing (optimize=%s) ---\n%s" % (
                msg, len(problems), src, opt, listings[opt]), case)
            return


def run(R):
    R.hyp("all-generators", allgen.any_case(n_inputs=0), check, examples=R.pick(300, 6000), shrink="ast")
    R.hyp("store-load-shapes", allgen.opt_shapes_case(n_inputs=0), check, examples=R.pick(150, 3000), shrink="ast")
    for l in ("optimiser-changed-the-module", "function-with->=3-blocks", "module-with-calls"):
        R.require(l)
