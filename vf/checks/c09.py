"""C09 - operator typing: accepted combinations, result type, operand conversions."""
import itertools

from .. import adapter
from .. import model as M

LEVEL = "exploration"
RULE = ("Exhaustive. (a) interface: nsl.types.ResolveBinaryExpressionType(op, L, R) for the 13 binary operators over "
        "the internal type universe {float,int,uint} x {scalar, vector 1-4, matrix 1-4 x 1-4} (63 types, 51 597 "
        "triples): accept/reject (any exception = reject), GetReturnType() and both GetOperandType(i) are compared "
        "with vf.model.binop_type, a transcription of the statement. (b) end to end for the 14 spellable types "
        "(2 548 programs `function f(L a, R b) -> T { return k(a OP b); }` with one overload of k per spellable "
        "type): front-end accept/reject, the IR type of the operator's result and the overload the call resolves "
        "to. Points the statement leaves open are excluded and counted (matrix compared with matrix; "
        "matrix(r x k) * matrix(k x 1); `*` with a size-1 vector or vector * one-row matrix). Non-trivial = both "
        "operands non-scalar or of different component type; distinct by (op, L, R).")
ASSUMPTIONS = [
    "vf.model.binop_type is a faithful transcription of the statement",
    "for comparisons the statement's 'converted to the component type of the result' is read as: operands are "
    "brought to their common component type (an operand may also be left unconverted); converting a float operand "
    "to int is a violation",
    "(b) an exception raised in lowering / IR passes after typing accepted the expression is not a typing "
    "rejection; it is counted as 'accepted-then-backend-failure' (that is property C05's concern)",
]

COMPS = ["float", "int", "uint"]


def universe():
    out = []
    for c in COMPS:
        out.append(("s", c))
        for n in range(1, 5):
            out.append(("v", c, n))
        for r in range(1, 5):
            for k in range(1, 5):
                out.append(("m", c, r, k))
    return out


SPELLABLE = ([("s", c) for c in COMPS] + [("v", c, n) for c in COMPS for n in (2, 3, 4)]
             + [("m", "float", 3, 3), ("m", "float", 4, 4)])


def to_nsl(t):
    from nsl import types
    comp = {"float": types.Float, "int": types.Integer, "uint": types.UnsignedInteger}[t[1]]()
    if t[0] == "s":
        return comp
    if t[0] == "v":
        return types.VectorType(comp, t[2])
    return types.MatrixType(comp, t[2], t[3])


def from_nsl(t):
    from nsl import types
    if t is None:
        return None
    if isinstance(t, types.Float):
        return ("s", "float")
    if isinstance(t, types.UnsignedInteger):
        return ("s", "uint")
    if isinstance(t, types.Integer):
        return ("s", "int")
    if isinstance(t, types.VectorType):
        return ("v", from_nsl(t.GetComponentType())[1], t.GetComponentCount())
    if isinstance(t, types.MatrixType):
        return ("m", from_nsl(t.GetComponentType())[1], t.GetRowCount(), t.GetColumnCount())
    return ("?", repr(t))


def with_comp(t, c):
    return (t[0], c) + tuple(t[2:])


def expectation(op, l, r):
    """-> ('accept', res, lc, rc) | ('reject',) | ('open', reason)"""
    if op == "*" and ((l[0] == "v" and l[2] == 1) or (r[0] == "v" and r[2] == 1)):
        # unspellable; the code base treats a one-component vector like a scalar
        # elsewhere (IsCompatible), the statement does not say which reading holds
        return ("open", "size-1 vector in *")
    try:
        res, lc, rc = M.binop_type(op, l, r)
    except M.Undefined as u:
        return ("open", str(u))
    except M.TypeErr:
        return ("reject",)
    return ("accept", res, lc, rc)


def region(op, l, r):
    """coarse grid region used in signatures, so that one root cause = one signature"""
    kind = {"s": "scalar", "v": "vector", "m": "matrix"}
    grp = "cmp" if op in M.CMP else ("addlike" if op in ("+", "-", "%", "&&", "||") else op)
    mixed = "mixed" if l[1] != r[1] else "same"
    return "%s|%sx%s|%s" % (grp, kind[l[0]], kind[r[0]], mixed)


def nontrivial(l, r):
    return (l[0] != "s" and r[0] != "s") or l[1] != r[1]


def iface_case(ctx, item):
    from nsl import op as nslop, types
    for (o, l, r) in (item,):
        ctx.count()
        exp = expectation(o, l, r)
        if exp[0] == "open":
            ctx.discard("open:" + exp[1])
            continue
        if nontrivial(l, r):
            ctx.nontrivial((o, l, r))
        try:
            with adapter.quiet():
                et = types.ResolveBinaryExpressionType(nslop.StrToOp(o), to_nsl(l), to_nsl(r))
            got = ("accept", from_nsl(et.GetReturnType()), from_nsl(et.GetOperandType(0)), from_nsl(et.GetOperandType(1)))
        except Exception as e:
            got = ("reject", type(e).__name__)
        reg = region(o, l, r)
        what = "%s %s %s" % (M.tname(l), o, M.tname(r))
        if ctx.want_sample() and nontrivial(l, r) and exp[0] == "accept":
            ctx.sample({"expr": what, "expected": [M.tname(x) for x in exp[1:]], "got": str(got)})
        if exp[0] == "reject":
            ctx.label("expected-reject")
            if got[0] != "reject":
                ctx.fail("iface|accepts-undefined|" + reg,
                         "%s is not a defined combination but is typed %s" % (what, _fmt(got)), (o, l, r))
            continue
        ctx.label("expected-accept")
        if got[0] == "reject":
            ctx.fail("iface|rejects-defined|" + reg, "%s is defined (type %s) but raises %s" % (
                what, M.tname(exp[1]), got[1]), (o, l, r))
            continue
        if got[1] != exp[1]:
            ctx.fail("iface|result-type|" + reg, "%s: result type %s, statement gives %s" % (
                what, _fmt(got), M.tname(exp[1])), (o, l, r))
            continue
        for k, (own, want) in enumerate(((l, exp[2]), (r, exp[3]))):
            g = got[2 + k]
            if o in M.CMP:
                ok = g in (own, want)
            else:
                ok = g == want
            if not ok:
                ctx.fail("iface|operand-%d-conversion|%s" % (k, reg), "%s: operand %d converted to %s, statement gives %s" % (
                    what, k, M.tname(g) if g and g[0] in "svm" else g, M.tname(want)), (o, l, r))
                break


def _fmt(got):
    return "(%s)" % ", ".join(M.tname(x) if isinstance(x, tuple) and x and x[0] in "svm" else str(x) for x in got[1:])


# -- end to end ---------------------------------------------------------------------

def _overloads():
    return "".join("function k ( %s x ) -> int { return %d ; }\n" % (M.tname(t), i + 1)
                   for i, t in enumerate(SPELLABLE))


def e2e_case(ctx, case):
    o, l, r = case
    ctx.count()
    exp = expectation(o, l, r)
    if exp[0] == "open":
        ctx.discard("open:" + exp[1])
        return
    if nontrivial(l, r):
        ctx.nontrivial(case)
    src = _overloads() + "export function f ( %s a , %s b ) -> int { return k ( a %s b ) ; }\n" % (
        M.tname(l), M.tname(r), o)
    what = "%s %s %s" % (M.tname(l), o, M.tname(r))
    reg = region(o, l, r)
    c = adapter.compile_src(src)
    if ctx.want_sample() and exp[0] == "accept" and nontrivial(l, r):
        ctx.sample({"source": src.splitlines()[-1], "expected_type": M.tname(exp[1])})
    if exp[0] == "reject":
        ctx.label("e2e-expected-reject")
        if c.ok or c.stage != "front":
            ctx.fail("e2e|accepts-undefined|" + reg, "%s must be rejected but the front end accepted it (%s)" % (
                what, c.why()), case)
        return
    ctx.label("e2e-expected-accept")
    if not c.ok:
        if c.stage == "front":
            ctx.fail("e2e|rejects-defined|" + reg, "%s is defined (type %s) but the program is rejected: %s\n%s" % (
                what, M.tname(exp[1]), c.why(), c.out[-300:]), case)
        else:
            ctx.discard("accepted-then-backend-failure:" + reg)
        return
    # result type in the IR and the overload the call resolved to
    fn = c.ir.Functions["f"]
    call = None
    for ins in fn.Instructions:
        if type(ins).__name__ == "CallInstruction":
            call = ins
    if call is None:
        ctx.fail("e2e|no-call", "no call instruction in f for %s" % what, case)
        return
    want_name = "@k->int`%s" % M.tname(exp[1])
    if call.Function != want_name:
        ctx.fail("e2e|overload|" + reg, "%s: k(a %s b) resolved to %s, expected %s" % (what, o, call.Function, want_name), case)
        return
    arg = call.Arguments[0]
    got_t = _ir_type(arg.Type)
    if got_t != exp[1]:
        ctx.fail("e2e|ir-type|" + reg, "%s: IR value has type %s, expected %s" % (what, arg.Type, M.tname(exp[1])), case)


def spelling_items():
    """operands that are literals, and operator applications nested inside another one"""
    items = []
    lit = {("s", "int"): "2", ("s", "float"): "2.5"}
    for o in M.ALL_OPS:
        for t in SPELLABLE:
            for lt in lit:
                items.append(("lit-right", o, t, lt, None, None))
                items.append(("lit-left", o, lt, t, None, None))
        for l in SPELLABLE:
            for r in SPELLABLE:
                # the operand variables were used before (their types have taken part in other expressions);
                # the application is the right-hand side of an assignment
                items.append(("prior-use", o, l, r, None, None))
                items.append(("assigned", o, l, r, None, None))
        for l in SPELLABLE[:3]:
            for r in SPELLABLE[:3]:
                for o2 in ("*", "+", "<", "/"):
                    for t3 in SPELLABLE[:3]:
                        items.append(("nested-left", o, l, r, o2, t3))
                        items.append(("nested-right", o, l, r, o2, t3))
    return items


def spelling_case(ctx, case):
    variant, o, l, r, o2, t3 = case
    ctx.count()
    exp = expectation(o, l, r)
    if exp[0] == "open":
        ctx.discard("open:" + exp[1])
        return
    lit = {("s", "int"): "2", ("s", "float"): "2.5"}
    reg = variant + "|" + region(o, l, r)
    if variant == "lit-right":
        src = "export function f ( %s a ) -> int { return k ( a %s %s ) ; }\n" % (M.tname(l), o, lit[r])
        what = "%s %s %s" % (M.tname(l), o, lit[r])
    elif variant == "lit-left":
        src = "export function f ( %s b ) -> int { return k ( %s %s b ) ; }\n" % (M.tname(r), lit[l], o)
        what = "%s %s %s" % (lit[l], o, M.tname(r))
    elif variant == "prior-use":
        src = "export function f ( %s a , %s b ) -> int { %s t = a + a ; %s u = b - b ; return k ( a %s b ) ; }\n" % (
            M.tname(l), M.tname(r), M.tname(l), M.tname(r), o)
        what = "%s %s %s after a + a and b - b" % (M.tname(l), o, M.tname(r))
    elif variant == "assigned":
        if exp[0] != "accept":
            rt = "int"
        else:
            rt = M.tname(exp[1])
        src = "export function f ( %s a , %s b ) -> int { %s r ; r = a %s b ; return k ( r ) ; }\n" % (M.tname(l), M.tname(r), rt, o)
        what = "r = %s %s %s" % (M.tname(l), o, M.tname(r))
    else:
        inner = "( a %s b )" % o
        whole = "%s %s c" % (inner, o2) if variant == "nested-left" else "c %s %s" % (o2, inner)
        src = "export function f ( %s a , %s b , %s c ) -> int { return k ( %s ) ; }\n" % (M.tname(l), M.tname(r), M.tname(t3), whole)
        what = "%s with a: %s, b: %s, c: %s" % (whole, M.tname(l), M.tname(r), M.tname(t3))
    final = exp
    if variant.startswith("nested") and exp[0] == "accept":
        final = expectation(o2, exp[1], t3) if variant == "nested-left" else expectation(o2, t3, exp[1])
        if final[0] == "open":
            ctx.discard("open:" + final[1])
            return
    ctx.label("spelling:" + variant)
    c = adapter.compile_src(_overloads() + src)
    if final[0] == "reject" or exp[0] == "reject":
        if c.ok or c.stage != "front":
            ctx.fail("e2e|accepts-undefined|" + reg, "%s must be rejected but the front end accepted it (%s)" % (what, c.why()), case)
        return
    if l[1] != r[1] or variant.startswith("nested"):
        ctx.nontrivial(case)
    if not c.ok:
        if c.stage == "front":
            ctx.fail("e2e|rejects-defined|" + reg, "%s is defined (type %s) but the program is rejected: %s" % (what, M.tname(final[1]), c.why()), case)
        else:
            ctx.discard("accepted-then-backend-failure:" + reg)
        return
    fn = c.ir.Functions["f"]
    call = [i for i in fn.Instructions if type(i).__name__ == "CallInstruction"]
    want_name = "@k->int`%s" % M.tname(final[1])
    if not call or call[-1].Function != want_name:
        ctx.fail("e2e|overload|" + reg, "%s: the call resolved to %s, expected %s\n%s" % (what, call[-1].Function if call else None, want_name, src), case)
        return
    bins = [i for i in fn.Instructions if type(i).__name__ == "BinaryInstruction"]
    if variant in ("assigned", "prior-use") and o not in M.CMP and bins:
        # "each operand is converted to the component type of the result": the operands that reach the (last)
        # binary instruction carry the converted types
        # (the lowering may split a matrix operation into rows or swap scalar and vector: only the COMPONENT type
        # of what reaches the last operation is prescribed)
        b = bins[-1]
        for k, v in enumerate(b.Values):
            got_t = _ir_type(v.Type)
            if got_t[0] in "svm" and got_t[1] != exp[1][1]:
                ctx.fail("e2e|operand-not-converted|" + reg, "%s: an operand reaches the operation as %s, the result's component type is %s\n%s" % (
                    what, v.Type, exp[1][1], adapter.listing(c.ir)[-900:]), case)
                return
    if variant.startswith("nested"):
        # the nested application keeps ITS OWN type: the first binary instruction is `a o b`
        bins = [i for i in fn.Instructions if type(i).__name__ == "BinaryInstruction"]
        if bins and _ir_type(bins[0].Type) != exp[1]:
            ctx.fail("e2e|nested-type|" + reg, "%s: the nested `a %s b` is computed as %s, its type is %s\n%s" % (
                what, o, bins[0].Type, M.tname(exp[1]), adapter.listing(c.ir)), case)


def _ir_type(t):
    from nsl import LinearIR
    if isinstance(t, LinearIR.FloatType):
        return ("s", "float")
    if isinstance(t, LinearIR.IntegerType):
        return ("s", "uint" if t.Unsigned else "int")
    if isinstance(t, LinearIR.VectorType):
        return ("v", _ir_type(t.ElementType)[1], t.Size)
    if isinstance(t, LinearIR.MatrixType):
        return ("m", _ir_type(t.ElementType)[1], t.RowCount, t.ColumnCount)
    return ("?", str(t))


def run(R):
    def iface_items():
        u = universe()
        return [(o, l, r) for o in M.ALL_OPS for l in u for r in u]

    R.enum("interface", iface_items, iface_case)
    R.enum("end-to-end", lambda: [(o, l, r) for o in M.ALL_OPS for l in SPELLABLE for r in SPELLABLE], e2e_case)
    R.enum("end-to-end-spellings", spelling_items, spelling_case)
    for v in ("lit-left", "lit-right", "nested-left", "nested-right", "prior-use", "assigned"):
        R.require("spelling:" + v)
    R.require("expected-accept")
    R.require("expected-reject")
    R.require("e2e-expected-accept")
    R.require("e2e-expected-reject")
