"""C06 - the WebAssembly backend agrees with the VM or refuses."""
import math
import struct

from hypothesis import strategies as st

from .. import adapter, genwasm, interp, wasmeng
from ..interp import OutOfDomain, deep_copy

LEVEL = "exploration"
RULE = ("Differential. Hypothesis programs (vf/genwasm.py): 1-3 exported functions inside the backend's subset (int / uint / "
        "float parameters, straight-line + - * /, == < >, integer constants, return) and near-miss programs with exactly "
        "one construct outside it (local, assignment to a parameter, branch, loop, call, mixed int/float arithmetic, "
        "% <= >= != && ||, void function, float constant, global, ++, two returns). Each is compiled with the wasm "
        "option: an exception or None from Compile or WriteTo = refused (fine). Otherwise the bytes are validated and "
        "instantiated in wasmtime (fallback: the vf/wasmref interpreter) and EVERY export is called on generated "
        "arguments (small values, i32 boundary values, dyadic floats); the result must equal the VM's result for the "
        "same arguments: ints exactly as 32-bit values, floats after rounding the VM's double to f32 (rel_tol 1e-6). "
        "An invalid module, a missing export, a trap where the VM succeeds or a different value is a violation. "
        "Inputs on which the VM fails or an intermediate leaves 32 bit are discarded. Non-trivial = the module was "
        "executed and the result depends on >= 1 parameter through >= 1 operation; distinct by (source, arguments).")
ASSUMPTIONS = [
    "wasmtime is the conforming engine (MVP feature set); vf/wasmref.py cross-checks validity on every module",
    "the VM is the reference for values; a VM result outside the signed (unsigned for uint) 32-bit range discards the input",
]


def f32(x):
    return struct.unpack("<f", struct.pack("<f", x))[0]


def eval_f32(e, env):
    """the value of a subset expression when every float operation is rounded to single precision
    (what a conforming engine computes); None if the expression leaves the subset"""
    from .. import model as M
    if isinstance(e, M.Lit):
        return f32(e.value) if e.ty == ("s", "float") else e.value
    if isinstance(e, M.Var):
        v = env[e.name]
        return f32(v) if e.ty == ("s", "float") else v
    if isinstance(e, M.Bin):
        a, b = eval_f32(e.l, env), eval_f32(e.r, env)
        if a is None or b is None:
            return None
        isf = e.l.ty == ("s", "float")
        try:
            if e.op == "+":
                r = a + b
            elif e.op == "-":
                r = a - b
            elif e.op == "*":
                r = a * b
            elif e.op == "/":
                if isf:
                    r = a / b
                else:
                    q = abs(a) // abs(b)
                    r = q if (a < 0) == (b < 0) else -q
            elif e.op == "==":
                return 1 if a == b else 0
            elif e.op == "<":
                return 1 if a < b else 0
            elif e.op == ">":
                return 1 if a > b else 0
            else:
                return None
        except (ZeroDivisionError, OverflowError):
            return None
        return f32(r) if isf else r
    return None


def check(ctx, case):
    src = case.source()
    ctx.label("kind:" + case.kind)
    c = adapter.compile_src(src, wasm=True)
    refusal = None
    data = None
    if not c.ok:
        refusal = c.why()
    else:
        try:
            data = adapter.wasm_bytes(c.result)
        except Exception as e:
            refusal = "WriteTo: %r" % (e,)
    if refusal is not None:
        ctx.count()
        ctx.label("refused")
        ctx.label("refused:" + case.kind)
        if case.kind == "subset":
            # the quantifier: programs inside the backend's straight-line subset must agree, not be refused
            ctx.fail("subset-program-refused|" + refusal[:70], "a program inside the backend's scalar straight-line subset "
                     "is refused: %s\n%s" % (refusal, src), case)
        return
    ok, msg, decoded = wasmeng.validate_both(data)
    if not ok:
        ctx.fail("invalid-module|" + case.kind.split(":")[0], "emitted module is not valid: %s\n%s\nbytes=%s" % (msg, src, data.hex()), case)
        return
    try:
        inst = wasmeng.Instance(data, decoded)
    except Exception as e:
        ctx.fail("instantiation-fails", "valid module cannot be instantiated: %r\n%s" % (e, src), case)
        return
    program = adapter.link([c.ir])
    ctx.label("executed")
    ctx.label("executed:" + case.kind)
    if ctx.want_sample():
        ctx.sample({"source": src, "bytes": data.hex()[:200]})
    for f in case.prog.funcs:
        if not f.exported:
            continue
        for args, gl in case.all_inputs[f.name]:
            ctx.count()   # one evaluation = one exported function called on one argument vector
            try:
                interp.run(case.prog, f.name, args, gl, step_limit=5000)
            except (TypeError, KeyError, AttributeError):
                pass   # a spelling the reference interpreter does not model: the VM decides alone
            except OutOfDomain as e:
                # an intermediate leaves 32 bit, a division by zero ...: outside the property's domain.  The sign
                # convention of % is NOT a reason to skip: here the VM itself is the reference.
                if e.reason not in ("negative-mod", "float-mod", "non-finite", "negative->uint", "float->int conversion", "conversion"):
                    ctx.discard("outside-domain:" + e.reason)
                    continue
            vm = adapter.new_vm(program)
            for k, v in deep_copy(gl).items():
                vm.SetGlobal(k, v)
            ran = adapter.invoke(vm, f.name, dict(args), budget=100000)
            if not ran.ok:
                ctx.discard("vm-fails:" + (type(ran.exc).__name__ if ran.exc else "diverged"))
                continue
            want = ran.value
            if f.ret == ("s", "int") and not (-(1 << 31) <= want < (1 << 31)):
                ctx.discard("result-outside-i32")
                continue
            if f.ret == ("s", "uint") and not (0 <= want < (1 << 32)):
                ctx.discard("result-outside-u32")
                continue
            # i32 parameters take the 32-bit pattern: unsigned values above 2^31-1 are passed as their signed twin
            wargs = [(args[n] - (1 << 32)) if (t == ("s", "uint") and args[n] >= (1 << 31)) else args[n] for t, n in f.params]
            kind, got = inst.call(f.name, wargs)
            inp = "%s(%s)" % (f.name, ", ".join("%s=%r" % (n, args[n]) for _, n in f.params))
            if kind == "missing":
                ctx.fail("missing-export", "module has no export %r\n%s" % (f.name, src), case)
                return
            if kind == "trap":
                ctx.fail("trap-where-vm-succeeds", "%s traps (%s), the VM returns %r\n%s" % (inp, got, want, src), case)
                return
            ctx.nontrivial((src, repr(args)))
            if f.ret == M_VOID:
                if got not in (None, []):
                    ctx.fail("void-returns-value", "%s returns %r from a void function\n%s" % (inp, got, src), case)
                    return
                continue
            if f.ret == ("s", "float"):
                w32 = f32(want)
                same = (got == w32) or (math.isnan(got) and math.isnan(w32)) or math.isclose(got, w32, rel_tol=1e-6, abs_tol=1e-30)
                if not same and case.kind == "subset":
                    # cancellation can amplify the rounding of intermediate results beyond 1e-6 of the final
                    # value: "to single precision" then means the value obtained when every operation of the
                    # source expression is rounded to f32, which a conforming engine must hit exactly
                    ret_stmt = f.body.stmts[-1]
                    exact32 = eval_f32(ret_stmt.e, args) if hasattr(ret_stmt, "e") else None
                    if exact32 is not None and got == exact32:
                        same = True
                        ctx.label("float-agreement-by-stepwise-f32-evaluation")
            elif f.ret == ("s", "uint"):
                same = (got & 0xFFFFFFFF) == want
            else:
                same = got == want
                if not same and case.kind == "subset" and any(t == ("s", "float") for t, _ in f.params):
                    # an integer result computed from float comparisons: single-precision rounding of the
                    # operands can legitimately flip `==` / `<`; the step-wise f32 evaluation decides
                    ret_stmt = f.body.stmts[-1]
                    exact32 = eval_f32(ret_stmt.e, args) if hasattr(ret_stmt, "e") else None
                    if exact32 is not None and got == exact32:
                        same = True
                        ctx.label("int-agreement-by-stepwise-f32-evaluation")
            if not same:
                ctx.fail("different-value|" + case.kind.split(":")[0], "%s: wasm returns %r, the VM returns %r\n%s" % (inp, got, want, src), case)
                return


M_VOID = ("void",)


class WholeCase:
    """a program of the scalar core / call-graph generators presented to the same check: the backend must refuse
    it or agree on every exported function with scalar parameters"""
    kind = "whole-language"

    def __init__(self, inner):
        self.inner = inner
        self.prog = inner.prog
        scalar = all(t[0] == "s" for t, _ in inner.prog.funcs[-1].params) and inner.prog.funcs[-1].ret[0] in ("s", "void")
        self.all_inputs = {f.name: [] for f in inner.prog.funcs}
        if scalar:
            self.all_inputs[inner.entry] = [(a, g) for a, g in inner.inputs]

    def source(self):
        return self.inner.source()

    def show(self):
        return self.inner.show() if hasattr(self.inner, "show") else self.source()


def whole_strategy():
    from hypothesis import strategies as st
    from .. import gen, genx
    return st.one_of(gen.core_case(n_inputs=2), genx.calls_case(n_inputs=2)).map(WholeCase)


def run(R):
    R.hyp("whole-language", whole_strategy, check, examples=R.pick(40, 1500))
    R.hyp("subset", genwasm.subset_case(), check, examples=R.pick(200, 4000))
    R.hyp("near-miss", genwasm.nearmiss_case(), check, examples=R.pick(80, 1500))
    R.require("executed", 200)
    R.require("refused")
