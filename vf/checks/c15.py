"""C15 - global state persists exactly across invocation histories; VMs are isolated."""
import copy

from hypothesis import strategies as st

from .. import adapter, interp
from .. import model as M
from ..compare import same
from ..interp import OutOfDomain, deep_copy
from ..model import INT, FLOAT
from ..runner import Violation, derive_seed

LEVEL = "exploration"
RULE = ("Stateful (Hypothesis RuleBasedStateMachine). A generated program has scalar, vector, matrix, array (1-D, 2-D, of "
        "vectors, of structs) and struct globals and 2-4 exported functions built from a menu of actions that read and "
        "write those globals and declare default-initialised locals of every kind (scalars, vectors, matrices, arrays, "
        "arrays of vectors, 2-D arrays, structs with vector and array fields) which they then mutate. Rules: "
        "NewVM (from the same linked Program, every global set to a generated value; up to 3 VMs), SetGlobal(vm, name, "
        "fresh host value), Invoke(vm, function, args), GetGlobal(vm, name); up to 40 steps. Oracle: a reference state "
        "machine - one globals map per VM, each invocation executed by the reference interpreter (vf/interp.py) on that "
        "map; after EVERY step every global of every VM must equal the model's and every returned value must equal the "
        "model's. Non-trivial = a history with >= 2 invocations around a SetGlobal on one VM with >= 1 global written by "
        "the program, or operations on two VMs interleaved; distinct by (program, history).")
ASSUMPTIONS = [
    "vf/interp.py gives locals fresh zero values on every execution of their declaration and globals the C-like update semantics",
    "an invocation on which the reference leaves the stated numeric domain (overflow, /0) is not executed on the VM and is counted",
    "every global is set before the first invocation on a VM (the VM starts globals as None; the property says 'with every global set')",
]

S_FIELDS = [(INT, "a"), (FLOAT, "b"), (M.vec("float", 2), "v"), (M.arr(INT, (2,)), "r")]
S = M.struct("S")
F2, F3, I2 = M.vec("float", 2), M.vec("float", 3), M.vec("int", 2)
M3 = M.mat("float", 3, 3)
GLOBALS = [(INT, "gi"), (FLOAT, "gf"), (F3, "gv"), (I2, "gw"), (M.arr(INT, (3,)), "ga"), (S, "gs"),
           (M.arr(INT, (2, 3)), "g2"), (M3, "gm"), (M.arr(S, (2,)), "gsa"), (M.vec("float", 2), "gp"), (M3, "gn"), (F3, "gx")]


def lit(v):
    return M.Lit(v, INT, str(v))


def flit(v):
    return M.Lit(float(v), FLOAT, M.spell(float(v), FLOAT))


def V(name, ty):
    return M.Var(name, ty)


def asg(t, op, v):
    return M.ExprStmt(M.Assign(t, op, v))


def idx(base, i, ty):
    return M.Index(base, lit(i) if isinstance(i, int) else i, ty)


def fld(base, name):
    ft = [t for t, n in S_FIELDS if n == name][0]
    return M.Member(base, name, ft)


gi, gf, gv, gw = V("gi", INT), V("gf", FLOAT), V("gv", F3), V("gw", I2)
ga, gs, g2, gm, gsa = V("ga", M.arr(INT, (3,))), V("gs", S), V("g2", M.arr(INT, (2, 3))), V("gm", M3), V("gsa", M.arr(S, (2,)))
P, Q = V("p", INT), V("q", FLOAT)
gp = V("gp", F2)
gn = V("gn", M3)
gx = V("gx", F3)


def fib_function():
    """non-exported tree recursion: a value stays live across the second recursive call"""
    n = V("n", INT)
    body = [M.If(M.Bin("<", n, lit(2)), M.Block([M.Return(n)])),
            M.Decl(INT, "a", M.Call("fib", [M.Bin("-", n, lit(1))], INT, 0)),
            M.Decl(INT, "b", M.Call("fib", [M.Bin("-", n, lit(2))], INT, 0)),
            M.Return(M.Bin("+", M.Bin("+", V("a", INT), V("b", INT)), n))]
    return M.Func("fib", [(INT, "n")], INT, M.Block(body), False)


def helper_functions():
    """non-exported helpers that reach a global directly (rd, bump) or only through another helper (mid, bump2)"""
    n = V("n", INT)
    rd = M.Func("rd", [(INT, "n")], INT, M.Block([M.Return(M.Bin("+", gi, n))]), False)
    mid = M.Func("mid", [(INT, "n")], INT, M.Block([M.Return(M.Bin("+", M.Call("rd", [n], INT, 1), lit(1)))]), False)
    bump = M.Func("bump", [(INT, "n")], INT, M.Block([asg(idx(ga, 2, INT), "=", M.Bin("+", idx(ga, 2, INT), n)),
                                                      M.Return(idx(ga, 2, INT))]), False)
    bump2 = M.Func("bump2", [(INT, "n")], INT, M.Block([M.Return(M.Call("bump", [n], INT, 3))]), False)
    # assigns a scalar global the caller also reads before and after the call
    setgi = M.Func("setgi", [(INT, "n")], INT, M.Block([asg(gi, "=", M.Bin("+", M.Bin("+", gi, n), lit(1))), M.Return(n)]), False)
    # a void helper whose body simply ends (no return statement)
    tick = M.Func("tick", [(INT, "n")], M.VOID, M.Block([asg(idx(ga, 1, INT), "=", M.Bin("+", idx(ga, 1, INT), n))]), False)
    return [rd, mid, bump, bump2, setgi, tick]


def pmod(n):
    """p folded into 0..n-1 without negative operands: ((p % n) + n) % n is not needed, p is drawn >= 0"""
    return M.Bin("%", P, lit(n))


def actions():
    """name -> function(k) returning a statement list; k makes local names unique"""
    A = {}
    A["scalar-int"] = lambda k: [asg(gi, "=", M.Bin("+", gi, P))]
    A["scalar-float"] = lambda k: [asg(gf, "=", M.Bin("+", M.Bin("*", gf, flit(0.5)), Q))]
    A["vector-swizzle"] = lambda k: [asg(M.Member(gv, "x", FLOAT), "=", M.Bin("+", M.Member(gv, "y", FLOAT), Q)),
                                    asg(M.Member(gv, "zy", F2), "=", M.Member(gv, "xx", F2))]
    A["vector-whole"] = lambda k: [asg(gv, "=", M.Bin("+", gv, M.Construct(F3, [Q, flit(1), flit(2)])))]
    A["vector-index"] = lambda k: [asg(idx(gw, pmod(2), INT), "+=", lit(1))]
    A["array-global"] = lambda k: [asg(idx(ga, pmod(3), INT), "=", M.Bin("+", idx(ga, 0, INT), P))]
    A["struct-global"] = lambda k: [asg(fld(gs, "a"), "=", M.Bin("+", fld(gs, "a"), lit(1))),
                                   asg(M.Member(fld(gs, "v"), "x", FLOAT), "=", fld(gs, "b")),
                                   asg(idx(fld(gs, "r"), 1, INT), "+=", P)]
    A["matrix-global"] = lambda k: [asg(idx(idx(gm, pmod(3), F3), 1, FLOAT), "+=", Q),
                                   asg(idx(gm, 0, F3), "=", M.Bin("+", idx(gm, 0, F3), gv))]
    A["array2d-global"] = lambda k: [asg(idx(idx(g2, pmod(2), M.arr(INT, (3,))), 2, INT), "+=", lit(1))]
    A["struct-array-global"] = lambda k: [asg(fld(idx(gsa, pmod(2), S), "a"), "+=", lit(1)),
                                         asg(gi, "=", M.Bin("+", gi, fld(idx(gsa, 0, S), "a")))]

    def local_array(k):
        t = M.arr(INT, (3,))
        a = V("la%d" % k, t)
        return [M.Decl(t, a.name), asg(gi, "=", M.Bin("+", gi, idx(a, 1, INT))), asg(idx(a, 1, INT), "=", M.Bin("+", P, lit(1))),
                asg(idx(a, 0, INT), "=", M.Bin("+", idx(a, 1, INT), idx(a, 2, INT))), asg(gi, "+=", idx(a, 0, INT))]
    A["local-array"] = local_array

    def local_struct(k):
        s = V("ls%d" % k, S)
        return [M.Decl(S, s.name), asg(fld(s, "a"), "+=", M.Bin("+", P, lit(1))), asg(idx(fld(s, "r"), 0, INT), "+=", lit(2)),
                asg(gi, "+=", M.Bin("+", fld(s, "a"), idx(fld(s, "r"), 0, INT))),
                asg(M.Member(fld(s, "v"), "y", FLOAT), "+=", Q), asg(gf, "+=", M.Member(fld(s, "v"), "y", FLOAT))]
    A["local-struct"] = local_struct

    def local_vector(k):
        v = V("lv%d" % k, F3)
        return [M.Decl(F3, v.name), asg(M.Member(v, "y", FLOAT), "+=", flit(1)), asg(idx(v, 2, FLOAT), "+=", Q),
                asg(gf, "+=", M.Bin("+", M.Member(v, "y", FLOAT), M.Member(v, "x", FLOAT)))]
    A["local-vector"] = local_vector

    def local_matrix(k):
        m = V("lm%d" % k, M3)
        return [M.Decl(M3, m.name), asg(idx(idx(m, 1, F3), 1, FLOAT), "+=", Q),
                asg(gf, "+=", M.Bin("+", idx(idx(m, 1, F3), 1, FLOAT), idx(idx(m, 0, F3), 1, FLOAT)))]
    A["local-matrix"] = local_matrix

    def local_struct_array(k):
        t = M.arr(S, (2,))
        a = V("lsa%d" % k, t)
        return [M.Decl(t, a.name), asg(fld(idx(a, 0, S), "a"), "=", M.Bin("+", P, lit(1))),
                asg(gi, "+=", M.Bin("+", fld(idx(a, 1, S), "a"), fld(idx(a, 0, S), "a")))]
    # a LOCAL declaration `S [ 2 ] name ;` is not spellable (the statement grammar reads `S [` as an
    # index expression), so arrays of structs only appear as globals

    def local_array2d(k):
        t = M.arr(INT, (2, 3))
        a = V("l2%d" % k, t)
        row = M.arr(INT, (3,))
        return [M.Decl(t, a.name), asg(idx(idx(a, 0, row), 2, INT), "=", M.Bin("+", P, lit(1))),
                asg(gi, "+=", M.Bin("+", idx(idx(a, 1, row), 2, INT), idx(idx(a, 0, row), 2, INT)))]
    A["local-array2d"] = local_array2d

    def local_vector_array(k):
        t = M.arr(F2, (2,))
        a = V("lva%d" % k, t)
        return [M.Decl(t, a.name), asg(idx(a, 0, F2), "=", M.Construct(F2, [Q, flit(1)])),
                asg(gf, "+=", M.Bin("+", M.Member(idx(a, 1, F2), "x", FLOAT), M.Member(idx(a, 0, F2), "y", FLOAT)))]
    A["local-vector-array"] = local_vector_array

    def local_scalar_loop(k):
        i = "i%d" % k
        t = V("t%d" % k, INT)
        return [M.For(M.Decl(INT, i, lit(0)), M.Bin("<", V(i, INT), lit(2)), M.Affix("++", V(i, INT), True),
                      M.Block([M.Decl(INT, t.name), asg(t, "+=", M.Bin("+", P, V(i, INT))), asg(gi, "+=", t)]))]
    A["local-scalar-in-loop"] = local_scalar_loop
    # the same helper called twice with equal arguments while the global it (indirectly) reads / writes changes
    A["indirect-global-read"] = lambda k: [asg(gi, "=", M.Bin("+", M.Call("mid", [pmod(3)], INT, 2), lit(1))),
                                          asg(gi, "=", M.Bin("+", M.Call("mid", [pmod(3)], INT, 2), lit(2)))]
    A["indirect-global-write"] = lambda k: [asg(idx(ga, 0, INT), "=", M.Call("bump2", [lit(1)], INT, 4)),
                                           asg(idx(ga, 1, INT), "=", M.Call("bump2", [lit(1)], INT, 4))]
    A["direct-global-read"] = lambda k: [asg(gi, "=", M.Bin("+", M.Call("rd", [pmod(3)], INT, 1), lit(1))),
                                        asg(gi, "=", M.Bin("-", M.Call("rd", [pmod(3)], INT, 1), lit(3)))]

    A["read-call-that-writes-read"] = lambda k: [asg(idx(ga, 0, INT), "=", gi), asg(idx(ga, 1, INT), "=", M.Call("setgi", [pmod(3)], INT, 5)),
                                                asg(idx(ga, 2, INT), "=", gi)]

    def void_helper_loop(k):
        i = "vi%d" % k
        return [M.For(M.Decl(INT, i, lit(0)), M.Bin("<", V(i, INT), lit(140)), M.Affix("++", V(i, INT), True),
                      M.Block([M.ExprStmt(M.Call("tick", [lit(1)], M.VOID, 6))]))]
    A["void-helper-in-loop"] = void_helper_loop
    # a global copied into another global (or a local), then changed through an index: the copy keeps its value
    A["snapshot-then-index-store"] = lambda k: [asg(gx, "=", gv), asg(idx(gv, pmod(3), FLOAT), "=", M.Bin("+", idx(gv, 1, FLOAT), Q)),
                                               asg(gn, "=", gm), asg(idx(idx(gm, 1, F3), pmod(3), FLOAT), "+=", Q)]
    A["index-store-global-vector"] = lambda k: [asg(idx(gv, pmod(3), FLOAT), "+=", Q), asg(idx(gm, pmod(3), F3), "=", gv)]

    def local_snapshot(k):
        t = V("sn%d" % k, F3)
        return [M.Decl(F3, t.name, gv), asg(idx(gv, 0, FLOAT), "=", M.Bin("+", idx(gv, 0, FLOAT), flit(1))),
                asg(gf, "=", M.Bin("-", idx(gv, 0, FLOAT), idx(t, 0, FLOAT)))]
    A["local-snapshot-then-index-store"] = local_snapshot
    # matrix products: one kept in a local across a second product of the same shape; one stored in a global that
    # later invocations only read
    def matrix_product(k):
        t, u = V("mt%d" % k, M3), V("mu%d" % k, M3)
        e = lambda m, r, c: idx(idx(m, r, F3), c, FLOAT)
        return [M.Decl(M3, t.name, M.Bin("*", gm, gm)), M.Decl(M3, u.name, M.Bin("*", gm, t)),
                asg(gf, "=", M.Bin("-", e(t, 1, 1), e(u, 0, 2))), asg(gn, "=", M.Bin("*", gm, gm))]
    A["matrix-product"] = matrix_product
    A["matrix-product-unassigned"] = lambda k: [M.Decl(M3, "mx%d" % k, M.Bin("*", gm, gm)),
                                               asg(gf, "=", idx(idx(V("mx%d" % k, M3), 2, F3), 0, FLOAT))]
    A["tree-recursion"] = lambda k: [asg(gi, "+=", M.Call("fib", [M.Bin("%", P, lit(6))], INT, 0))]
    # constructors whose FIRST operand is a stored vector (global, struct field, matrix row)
    A["construct-from-stored-vector"] = lambda k: [
        asg(gv, "=", M.Bin("+", gv, M.Construct(F3, [gp, Q]))),
        asg(gv, "=", M.Bin("-", gv, M.Construct(F3, [fld(gs, "v"), flit(1)]))),
        asg(M.Member(gv, "xy", F2), "=", M.Bin("+", gp, fld(gs, "v")))]

    def local_aggregate_loop(k):
        i = "j%d" % k
        ta = M.arr(INT, (2,))
        a = V("ta%d" % k, ta)
        sv = V("ts%d" % k, S)
        return [M.For(M.Decl(INT, i, lit(0)), M.Bin("<", V(i, INT), lit(2)), M.Affix("++", V(i, INT), True),
                      M.Block([M.Decl(ta, a.name), M.Decl(S, sv.name),
                               asg(idx(a, 1, INT), "+=", M.Bin("+", P, lit(1))), asg(fld(sv, "a"), "+=", lit(3)),
                               asg(gi, "+=", M.Bin("+", idx(a, 1, INT), fld(sv, "a")))]))]
    A["local-aggregate-in-loop"] = local_aggregate_loop
    return A


ACTIONS = actions()
ACTION_NAMES = sorted(ACTIONS)
RETURNS = [("int", lambda: M.Bin("+", gi, idx(ga, 1, INT))), ("float", lambda: M.Bin("+", gf, M.Member(gv, "x", FLOAT))),
           ("vec", lambda: gv), ("int2", lambda: fld(gs, "a"))]


@st.composite
def programs(draw):
    funcs = []
    k = 0
    for fi in range(draw(st.integers(2, 4))):
        stmts = []
        names = []
        for _ in range(draw(st.integers(1, 5))):
            nm = draw(st.sampled_from(ACTION_NAMES))
            k += 1
            names.append(nm)
            stmts += copy.deepcopy(ACTIONS[nm](k))
        rk, rf = draw(st.sampled_from(RETURNS))
        rty = {"int": INT, "float": FLOAT, "vec": F3, "int2": INT}[rk]
        stmts.append(M.Return(copy.deepcopy(rf())))
        funcs.append(M.Func("f%d" % fi, [(INT, "p"), (FLOAT, "q")], rty, M.Block(stmts), True))
    return M.Program([("S", S_FIELDS)], list(GLOBALS), [fib_function()] + helper_functions() + funcs)


def value_strategy(ty, prog):
    k = ty[0]
    if k == "s":
        return st.integers(-6, 6) if ty[1] == "int" else st.integers(-8, 8).map(lambda n: n / 4.0)
    if k == "v":
        return st.lists(value_strategy(("s", ty[1]), prog), min_size=ty[2], max_size=ty[2])
    if k == "m":
        return st.lists(st.lists(value_strategy(("s", ty[1]), prog), min_size=ty[3], max_size=ty[3]), min_size=ty[2], max_size=ty[2])
    if k == "a":
        dims = ty[2]
        inner = value_strategy(ty[1], prog) if len(dims) == 1 else value_strategy(("a", ty[1], dims[1:]), prog)
        return st.lists(inner, min_size=dims[0], max_size=dims[0])
    if k == "st":
        return st.fixed_dictionaries({fn: value_strategy(ft, prog) for ft, fn in prog.struct_fields(ty[1])})
    raise ValueError(ty)


# -- executing a history (pure function of the history: used live and for replay) ----------------

class History:
    def __init__(self, prog):
        self.prog = prog
        self.steps = []

    def show(self):
        out = [M.to_source(self.prog)]
        for s in self.steps:
            out.append("// " + repr(s))
        return "\n".join(out)


class Live:
    """real VMs + model state for one history"""

    def __init__(self, prog):
        self.prog = prog
        self.src = M.to_source(prog)
        c = adapter.compile_src(self.src)
        if not c.ok:
            raise Violation("program-rejected|" + c.why()[:80], "well-typed program rejected: %s\n%s" % (c.why(), self.src))
        self.program = adapter.link([c.ir])
        self.vms = []   # (vm, model globals dict)
        self.stats = {"invokes": 0, "sets": 0, "interleaved": False, "last_vm": None, "set_between": False, "ood": 0}

    def apply(self, step, hist):
        kind = step[0]
        if kind == "newvm":
            vm = adapter.new_vm(self.program)
            for name, val in step[1].items():
                vm.SetGlobal(name, deep_copy(val))
            self.vms.append((vm, deep_copy(step[1])))
            self.check_all(hist, step)
            return
        vi = step[1]
        vm, model = self.vms[vi]
        if self.stats["last_vm"] is not None and self.stats["last_vm"] != vi:
            self.stats["interleaved"] = True
        self.stats["last_vm"] = vi
        if kind == "set":
            vm.SetGlobal(step[2], deep_copy(step[3]))
            model[step[2]] = deep_copy(step[3])
            self.stats["sets"] += 1
            if self.stats["invokes"]:
                self.stats["set_between"] = True
        elif kind == "get":
            got = vm.GetGlobal(step[2])
            if not same(got, model[step[2]]):
                raise Violation("get-global|" + step[2], "GetGlobal(vm%d, %s) = %r, reference state machine has %r\n%s" % (
                    vi, step[2], got, model[step[2]], hist.show()), hist)
        elif kind == "invoke":
            fname, args = step[2], step[3]
            try:
                ref = interp.run(self.prog, fname, args, model, step_limit=20000)
            except OutOfDomain:
                self.stats["ood"] += 1
                return
            ran = adapter.invoke(vm, fname, deep_copy(args), budget=200 * ref.steps + 10000)
            self.stats["invokes"] += 1
            if ran.timed_out:
                return
            if not ran.ok:
                what = "diverged" if ran.diverged else adapter.exc_sig(ran.exc)
                raise Violation("invoke-fails|" + what, "Invoke(vm%d, %s, %r) failed: %r; reference returns %r\n%s" % (
                    vi, fname, args, ran.exc, ref.value, hist.show()), hist)
            if not same(ran.value, ref.value):
                raise Violation("invoke-value", "Invoke(vm%d, %s, %r) returned %r, reference state machine %r\n%s" % (
                    vi, fname, args, ran.value, ref.value, hist.show()), hist)
            self.vms[vi] = (vm, ref.globals)
        self.check_all(hist, step)

    def check_all(self, hist, step):
        touched = len(self.vms) - 1 if step[0] == "newvm" else step[1]
        for i, (vm, model) in enumerate(self.vms):
            for name in model:
                got = vm.GetGlobal(name)
                if not same(got, model[name]):
                    other = "" if i == touched else " (a VM the step did not touch)"
                    raise Violation("global-state|%s" % (name if not other else "other-vm"),
                                    "after %r: global %s of vm%d%s is %r, reference state machine has %r\n%s" % (
                                        step, name, i, other, got, model[name], hist.show()), hist)


def run_history(ctx, hist):
    """replay entry point: executes a recorded history from scratch"""
    ctx.count()
    live = Live(hist.prog)
    done = History(hist.prog)
    for s in hist.steps:
        done.steps.append(s)
        live.apply(s, done)


# -- the state machine -----------------------------------------------------------------------------

def make_machine(ctx):
    from hypothesis.stateful import RuleBasedStateMachine, initialize, precondition, rule

    class VMHistory(RuleBasedStateMachine):
        def __init__(self):
            super().__init__()
            self.live = None
            self.hist = None

        @initialize(prog=programs(), data=st.data())
        def setup(self, prog, data):
            self.hist = History(prog)
            self.live = Live(prog)
            self._newvm(data)

        def _do(self, step):
            self.hist.steps.append(step)
            try:
                self.live.apply(step, self.hist)
            except Violation:
                ctx.frozen = True  # everything Hypothesis runs from here on is shrinking
                raise

        def _newvm(self, data):
            vals = {nm: data.draw(value_strategy(ty, self.hist.prog), label=nm) for ty, nm in self.hist.prog.globals}
            self._do(("newvm", vals))

        @precondition(lambda self: self.live is not None and len(self.live.vms) < 3)
        @rule(data=st.data())
        def new_vm(self, data):
            self._newvm(data)

        @precondition(lambda self: self.live is not None)
        @rule(data=st.data())
        def set_global(self, data):
            vi = data.draw(st.integers(0, len(self.live.vms) - 1))
            ty, nm = data.draw(st.sampled_from(self.hist.prog.globals))
            self._do(("set", vi, nm, data.draw(value_strategy(ty, self.hist.prog))))

        @precondition(lambda self: self.live is not None)
        @rule(data=st.data())
        def invoke(self, data):
            vi = data.draw(st.integers(0, len(self.live.vms) - 1))
            f = data.draw(st.sampled_from([f for f in self.hist.prog.funcs if f.exported]))
            args = {"p": data.draw(st.integers(0, 5)), "q": data.draw(st.integers(-8, 8)) / 4.0}
            self._do(("invoke", vi, f.name, args))

        @precondition(lambda self: self.live is not None)
        @rule(data=st.data())
        def get_global(self, data):
            vi = data.draw(st.integers(0, len(self.live.vms) - 1))
            ty, nm = data.draw(st.sampled_from(self.hist.prog.globals))
            self._do(("get", vi, nm))

        def teardown(self):
            if self.live is None or ctx.frozen:
                return
            s = self.live.stats
            ctx.count(len(self.hist.steps))
            if s["ood"]:
                ctx.s.discards["invocation-outside-numeric-domain"] += s["ood"]
            if (s["invokes"] >= 2 and s["set_between"]) or s["interleaved"]:
                ctx.nontrivial(self.hist.show())
            if s["interleaved"]:
                ctx.label("two-vms-interleaved")
            if s["set_between"]:
                ctx.label("setglobal-between-invocations")
            if len(self.live.vms) >= 2:
                ctx.label("several-vms")
            ctx.label("steps", len(self.hist.steps))
            for st_ in self.hist.steps:
                ctx.label("step:" + st_[0])
            if ctx.want_sample() and s["invokes"] >= 2:
                ctx.sample({"program": self.live.src[:1500], "history": [repr(x)[:160] for x in self.hist.steps[:12]]})

    return VMHistory


def worker_factory(R, n_machines, n_steps):
    def worker(k, ctx):
        from hypothesis import HealthCheck, Phase, seed, settings
        from hypothesis.stateful import run_state_machine_as_test
        machine = seed(derive_seed(R.seed, "C15", k))(make_machine(ctx))
        try:
            run_state_machine_as_test(machine, settings=settings(
                max_examples=n_machines, stateful_step_count=n_steps, database=None, deadline=None,
                report_multiple_bugs=False, suppress_health_check=list(HealthCheck),
                phases=[Phase.generate, Phase.shrink]))
        except Violation:
            ctx.frozen = True
            raise
    return worker


def run(R):
    if R.replay is not None:
        R._replaying("histories", run_history)
        return
    if not R.in_worker:
        R._regress("histories", run_history)
    R.custom("histories", worker_factory(R, R.pick(40, 400), R.pick(40, 50)), nworkers=16)
    for l in ("two-vms-interleaved", "setglobal-between-invocations", "several-vms", "step:invoke", "step:set", "step:get"):
        R.require(l)
