"""C11 - break and continue are accepted exactly inside loops (and bind to the innermost one)."""
import itertools

from hypothesis import strategies as st

from .. import adapter, gen
from .. import model as M
from ..model import INT
from . import c01

LEVEL = "exploration"
RULE = ("Exhaustive: every nesting path of length 0..D (quick D=3, thorough D=5) over the seven enclosing constructs "
        "{block, if-then, then-branch of if/else, else-branch of if/else, for, while, do} x {break, continue} x "
        "sibling context {none, a complete loop before the statement in the same block, a loop after it, a loop in an "
        "earlier function} x {braced, unbraced innermost body}; plus Hypothesis-generated statement trees with several "
        "break/continue statements. Oracle: the program is accepted iff every break/continue has a lexically enclosing "
        "loop in the same function (rejection = Compile returns None or raises in the front end). Accepted programs "
        "count loop-body entries/exits in global counters and are run on the VM against the reference interpreter "
        "(vf/interp.py), which fixes WHICH loop each statement leaves or continues. Non-trivial = the flow statement "
        "is nested >= 2 constructs below its loop, or is outside any loop; distinct by source text.")
ASSUMPTIONS = [
    "rejected = Compile returns None, exits, or raises inside the front end (parser / AST passes); an exception "
    "from lowering or later does not count as the required rejection",
    "vf/interp.py gives break/continue the innermost-loop semantics of the statement",
]

CONSTRUCTS = ["block", "if", "ifelse-then", "ifelse-else", "for", "while", "do", "for-nocond",
              "do-once", "if-literal-0", "else-of-if-literal-1"]
LOOPS = {"for", "while", "do", "for-nocond", "do-once"}
RARE = {"do-once", "if-literal-0", "else-of-if-literal-1", "for-nocond"}   # at most one of these per enumerated path
SIBLINGS = ["none", "loop-before", "loop-after", "loop-in-other-function", "return-before", "if-before",
            "clean-function-after"]


def lit(v):
    return M.Lit(v, INT, str(v))


def inc(name, by=1):
    v = M.Var(name, INT)
    return M.ExprStmt(M.Assign(v, "=", M.Bin("+", v, lit(by))))


class Builder:
    """builds an M.Program from nested constructs; keeps the counters it uses"""

    def __init__(self):
        self.globals = []
        self.n = 0

    def counter(self, prefix):
        self.n += 1
        name = "%s%d" % (prefix, self.n)
        self.globals.append((INT, name))
        return name

    def fresh(self, prefix):
        self.n += 1
        return "%s%d" % (prefix, self.n)

    def side_loop(self):
        z = self.fresh("z")
        c = self.counter("gz")
        return M.For(M.Decl(INT, z, lit(0)), M.Bin("<", M.Var(z, INT), lit(2)), M.Affix("++", M.Var(z, INT), True),
                     M.Block([inc(c)]))

    def wrap(self, construct, inner, bare=False):
        """one statement made of `construct` around the statement list `inner`;
        bare: the body is the single inner statement without braces/counters"""
        if bare:
            body = inner[0]
        else:
            pre = self.counter("gpre")
            post = self.counter("gpost")
            body = M.Block([inc(pre)] + inner + [inc(post)])
        cond = M.Bin("!=", M.Var("p", INT), lit(0))
        if construct == "block":
            return body if isinstance(body, M.Block) else M.Block([body])
        if construct == "if":
            return M.If(cond, body)
        if construct == "ifelse-then":
            return M.If(cond, body, M.Block([inc(self.counter("gels"))]))
        if construct == "ifelse-else":
            return M.If(cond, M.Block([inc(self.counter("gthn"))]), body)
        if construct == "for":
            i = self.fresh("i")
            return M.For(M.Decl(INT, i, lit(0)), M.Bin("<", M.Var(i, INT), lit(2)),
                         M.Affix("++", M.Var(i, INT), True), body)
        if construct == "do-once":
            # do { ... } while ( 0 ): a loop that runs exactly once; break / continue inside belong to it
            stmts = body.stmts if isinstance(body, M.Block) else [body]
            return M.Do(M.Block(list(stmts)), lit(0))
        if construct == "if-literal-0":
            # never taken, but still a statement of the program (the rule is lexical)
            return M.If(lit(0), body)
        if construct == "else-of-if-literal-1":
            return M.If(lit(1), M.Block([inc(self.counter("gthn"))]), body)
        if construct == "for-nocond":
            # `for (int i = 0; ; ++i)`: no condition, left through its own break
            i = self.fresh("i")
            guard = M.If(M.Bin(">=", M.Var(i, INT), lit(2)), M.Block([M.Break()]))
            stmts = [guard] + (body.stmts if isinstance(body, M.Block) else [body])
            return M.For(M.Decl(INT, i, lit(0)), None, M.Affix("++", M.Var(i, INT), True), M.Block(stmts))
        if construct == "while":
            w = self.fresh("w")
            dec = M.ExprStmt(M.Affix("--", M.Var(w, INT), False))
            if bare:
                # unbraced body cannot hold the decrement: count down in the condition's variable via a for-less form
                body = M.Block([dec, inner[0]])
            else:
                body = M.Block([dec] + body.stmts)
            return M.Block([M.Decl(INT, w, lit(2)), M.While(M.Bin(">", M.Var(w, INT), lit(0)), body)])
        if construct == "do":
            d = self.fresh("d")
            dec = M.ExprStmt(M.Affix("--", M.Var(d, INT), False))
            stmts = [dec] + (body.stmts if isinstance(body, M.Block) else [body])
            return M.Block([M.Decl(INT, d, lit(2)), M.Do(M.Block(stmts), M.Bin(">", M.Var(d, INT), lit(0)))])
        raise ValueError(construct)


def path_program(path, flow, sibling, bare):
    b = Builder()
    fl = M.Break() if flow == "break" else M.Continue()
    inner = [fl]
    if sibling == "loop-before":
        inner = [b.side_loop(), fl]
    elif sibling == "loop-after":
        inner = [fl, b.side_loop()]
    elif sibling == "return-before":
        # statically dead, but still a statement of the program: the rule is lexical
        inner = [M.Return(M.Var("p", INT)), fl]
    elif sibling == "if-before":
        inner = [M.If(M.Bin("==", M.Var("p", INT), lit(7)), M.Block([M.Return(lit(0))])), fl]
    use_bare = bare and sibling in ("none", "loop-in-other-function") and path and path[-1] not in ("block", "do", "for-nocond", "do-once")
    stmt_list = inner
    for k, c in enumerate(reversed(path)):
        stmt_list = [b.wrap(c, stmt_list, bare=(use_bare and k == 0))]
    tail = b.counter("gend")
    body = M.Block(stmt_list + [inc(tail), M.Return(M.Var("p", INT))])
    funcs = []
    if sibling == "loop-in-other-function":
        c = b.counter("gh")
        h = M.Func("h", [(INT, "q")], INT, M.Block([
            M.For(M.Decl(INT, "y", lit(0)), M.Bin("<", M.Var("y", INT), lit(2)), M.Affix("++", M.Var("y", INT), True),
                  M.Block([inc(c)])), M.Return(M.Var("q", INT))]), False)
        funcs.append(h)
    funcs.append(M.Func("f", [(INT, "p")], INT, body, True))
    if sibling == "clean-function-after":
        # the function holding the statement is not the last one of the module
        c = b.counter("gz")
        funcs.append(M.Func("z", [(INT, "q")], INT, M.Block([
            M.For(M.Decl(INT, "y", lit(0)), M.Bin("<", M.Var("y", INT), lit(2)), M.Affix("++", M.Var("y", INT), True),
                  M.Block([inc(c), M.If(M.Bin(">", M.Var("y", INT), lit(5)), M.Block([M.Break()]))])),
            M.Return(M.Var("q", INT))]), True))
    return M.Program([], b.globals, funcs), use_bare


def expected_accept(path):
    return any(c in LOOPS for c in path)


def depth_below_loop(path):
    idx = [i for i, c in enumerate(path) if c in LOOPS]
    if not idx:
        return None
    return len(path) - 1 - idx[-1]


def run_accepted(ctx, prog, case, tag):
    inputs = [({"p": v}, {nm: 0 for _, nm in prog.globals}) for v in (0, 1)]
    cs = gen.Case(prog, "f", inputs, "full")
    c01.check_case(ctx, cs, nontrivial=lambda tr: False)


def path_case(ctx, case):
    path, flow, sibling, bare = case
    prog, used_bare = path_program(path, flow, sibling, bare)
    if bare and not used_bare:
        ctx.discard("unbraced-variant-not-applicable")
        return
    src = M.to_source(prog)
    acc = expected_accept(path)
    d = depth_below_loop(path)
    if (not acc) or (d is not None and d >= 2):
        ctx.nontrivial(src)
    ctx.label("expected-accept" if acc else "expected-reject")
    ctx.label("sibling:" + sibling)
    if used_bare:
        ctx.label("unbraced-body")
    if ctx.want_sample() and len(path) >= 2:
        ctx.sample({"source": src, "expected": "accepted" if acc else "rejected"})
    if not acc:
        ctx.count()
        c = adapter.compile_src(src)
        if c.ok or c.stage != "front":
            ctx.fail("accepts-misplaced|%s|sibling=%s" % (flow, sibling),
                     "%s outside any loop must be rejected, got %s:\n%s" % (flow, c.why(), src), case)
        return
    c = adapter.compile_src(src)
    if not c.ok:
        ctx.count()
        ctx.fail("rejects-valid|%s|%s" % (flow, c.stage), "%s inside a loop was rejected (%s):\n%s\n%s" % (
            flow, c.why(), src, c.out[-300:]), case)
        return
    run_accepted(ctx, prog, case, "path")


# -- generated trees with several flow statements --------------------------------------

@st.composite
def tree_case(draw):
    b = Builder()
    info = {"flows": 0, "outside": 0, "deep": 0}

    def stmts(depth, loops_above, since_loop):
        n = draw(st.integers(1, 3))
        return [stmt(depth, loops_above, since_loop) for _ in range(n)]

    def stmt(depth, loops_above, since_loop):
        r = draw(st.integers(0, 99))
        if depth <= 0 or r < 22:
            if r % 3 == 0 or depth <= 0 and r % 2 == 0:
                info["flows"] += 1
                if loops_above == 0:
                    info["outside"] += 1
                elif since_loop >= 2:
                    info["deep"] += 1
                return M.Break() if draw(st.booleans()) else M.Continue()
            if r % 7 == 1:
                return M.Return(M.Var("p", INT))
            return inc(b.counter("gc"))
        c = draw(st.sampled_from(CONSTRUCTS))
        isloop = c in LOOPS
        inner = stmts(depth - 1, loops_above + (1 if isloop else 0), 0 if isloop else since_loop + 1)
        return b.wrap(c, inner)

    want_bad = draw(st.integers(0, 9)) < 4
    body = stmts(draw(st.integers(1, 4)), 0, 0)
    if not want_bad and info["outside"]:
        # wrap everything in a loop so that most generated trees are valid
        body = [b.wrap(draw(st.sampled_from(sorted(LOOPS))), body)]
        info["outside"] = 0
    tail = b.counter("gend")
    f = M.Func("f", [(INT, "p")], INT, M.Block(body + [inc(tail), M.Return(M.Var("p", INT))]), True)
    return (M.Program([], b.globals, [f]), dict(info))


def tree_case_check(ctx, case):
    prog, info = case
    src = M.to_source(prog)
    acc = info["outside"] == 0
    if info["flows"] >= 2:
        ctx.label("several-flow-statements")
    if info["outside"] or info["deep"]:
        ctx.nontrivial(src)
    ctx.label("gen-expected-accept" if acc else "gen-expected-reject")
    if not acc:
        ctx.count()
        c = adapter.compile_src(src)
        if c.ok or c.stage != "front":
            ctx.fail("accepts-misplaced|generated", "a break/continue outside any loop must be rejected, got %s:\n%s" % (
                c.why(), src), case)
        return
    c = adapter.compile_src(src)
    if not c.ok:
        ctx.count()
        ctx.fail("rejects-valid|generated|" + c.stage, "all break/continue are inside loops, rejected (%s):\n%s" % (c.why(), src), case)
        return
    run_accepted(ctx, prog, case, "tree")


class _Shown:
    pass


def run(R):
    D = R.pick(3, 4)

    def items():
        out = []
        for n in range(0, D + 1):
            for path in itertools.product(CONSTRUCTS, repeat=n):
                if sum(1 for c in path if c in RARE) > 1:
                    continue
                for flow in ("break", "continue"):
                    for sib in SIBLINGS:
                        for bare in (False, True):
                            if bare and (not path or path[-1] in ("block", "do", "for-nocond", "do-once") or sib not in ("none", "loop-in-other-function")):
                                continue
                            out.append((path, flow, sib, bare))
        return out

    R.enum("paths", items, path_case, chunks=64)
    R.hyp("trees", tree_case(), tree_case_check, examples=R.pick(120, 3000), shrink="hyp")
    for l in ("expected-accept", "expected-reject", "unbraced-body", "several-flow-statements",
              "gen-expected-accept", "gen-expected-reject", "continue:do", "continue:for", "continue:while",
              "break:do", "break:for", "break:while"):
        R.require(l)
    for s in SIBLINGS:
        R.require("sibling:" + s)
