"""C02 - optimisation never changes observable behaviour."""
from .. import adapter, allgen
from ..compare import exact
from ..interp import deep_copy

LEVEL = "exploration"
RULE = ("Differential, no reference model. Programs from the union of all generators (scalar core, vectors/matrices, "
        "call graphs, the loosely typed whole-language generator) plus a generator dense in store-then-load shapes (a "
        "value stored to a parameter / local / global / vector and immediately consumed by a branch predicate, member "
        "access, index, call argument, return, loop condition, a second forwarded pair, ++/--) are compiled with "
        "optimize False and True. Oracle: (a) same accept/reject; (b) on every generated input on which the "
        "unoptimised module succeeds, the optimised module succeeds with an exactly equal value (NaN == NaN) and equal "
        "globals; an unoptimised failure only counts. Non-trivial = the two IR listings differ (an optimisation fired) "
        "and the function was executed; distinct by (source, input).")
ASSUMPTIONS = [
    "the unoptimised module is the reference (the statement relates the two configurations only)",
    "a step budget of 200 000 VM instructions; if the unoptimised run exceeds it the input is discarded, if only the "
    "optimised run exceeds it that is reported as divergence",
]


def behaviour(program, case, args, gl, budget):
    vm = adapter.new_vm(program)
    for k, v in deep_copy(gl).items():
        vm.SetGlobal(k, v)
    ran = adapter.invoke(vm, case.entry, deep_copy(args), budget=budget)
    if ran.diverged:
        return ("diverged", None, None, ran)
    if not ran.ok:
        return ("exception", type(ran.exc).__name__, None, ran)
    return ("ok", ran.value, {k: vm.GetGlobal(k) for k in gl}, ran)


def check(ctx, case):
    src = case.source()
    c0 = adapter.compile_src(src, optimize=False)
    c1 = adapter.compile_src(src, optimize=True)
    ctx.count(max(1, len(case.inputs)))
    ctx.label("gen:" + (case.note or type(case).__name__))
    if c0.ok != c1.ok:
        ctx.fail("accept-reject|opt=%s" % ("rejects" if c0.ok else "accepts"),
                 "optimize=False: %s ; optimize=True: %s\n%s" % (c0.why(), c1.why(), src), case)
        return
    if not c0.ok:
        ctx.discard("rejected-by-both:" + c0.stage)
        return
    l0, l1 = adapter.listing(c0.ir), adapter.listing(c1.ir)
    fired = l0 != l1
    if fired:
        ctx.label("optimisation-fired")
        if "cast" in l0 and l0.count("cast") > l1.count("cast"):
            ctx.label("fired:constant-cast")
        if l0.count("load.") > l1.count("load."):
            ctx.label("fired:load-after-store")
    try:
        p0 = adapter.link([c0.ir])
    except Exception as e:
        ctx.discard("unoptimised-does-not-link:" + type(e).__name__)
        return
    try:
        p1 = adapter.link([c1.ir])
    except Exception as e:
        ctx.fail("link|" + adapter.exc_sig(e), "optimised module does not link: %r\n%s" % (e, src), case)
        return
    if ctx.want_sample() and fired:
        ctx.sample({"source": src, "inputs": [repr(i) for i in case.inputs[:1]]})
    for args, gl in case.inputs:
        b0 = behaviour(p0, case, args, gl, 200000)
        if b0[0] != "ok":
            ctx.discard("unoptimised-run-" + b0[0] + (":" + b0[1] if b0[1] else ""))
            if b0[3].timed_out:
                return  # numbers explode on this program: do not spend more wall-clock on it
            continue
        if fired:
            ctx.nontrivial((src, repr(args), repr(gl)))
        b1 = behaviour(p1, case, args, gl, 200000 + 20 * b0[3].steps)
        inp = "args=%r globals=%r" % (args, gl)
        if b1[0] == "diverged" and b1[3].timed_out:
            ctx.discard("optimised-run-wall-clock-guard (inconclusive)")
            continue
        if b1[0] == "diverged":
            ctx.fail("optimised-diverges", "unoptimised returns %r, optimised exceeds the step budget\n%s\n%s" % (b0[1], inp, src), case)
            return
        if b1[0] == "exception":
            ctx.fail("optimised-fails|" + adapter.exc_sig(b1[3].exc),
                     "unoptimised returns %r, optimised raises %r\n%s\n%s" % (b0[1], b1[3].exc, inp, src), case)
            return
        if not exact(b0[1], b1[1]):
            ctx.fail("different-value", "unoptimised returns %r, optimised returns %r\n%s\n%s" % (b0[1], b1[1], inp, src), case)
            return
        if not exact(b0[2], b1[2]):
            ctx.fail("different-globals", "globals after the call: unoptimised %r, optimised %r\n%s\n%s" % (b0[2], b1[2], inp, src), case)
            return


def run(R):
    R.hyp("all-generators", allgen.any_case(), check, examples=R.pick(250, 6000), shrink="ast")
    R.hyp("store-load-shapes", allgen.opt_shapes_case(), check, examples=R.pick(150, 3000), shrink="ast")
    for l in ("optimisation-fired", "fired:load-after-store", "fired:constant-cast", "gen:opt-shapes"):
        R.require(l)
