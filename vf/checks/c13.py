"""C13 - static checks on element selection: constant bounds, index type, swizzle mask."""
import itertools

from .. import adapter
from .. import model as M

LEVEL = "exploration"
RULE = ("Exhaustive grids, oracle = accept/reject transcribed from the statement. (1) arrays: all 84 shapes with 1-3 "
        "dimensions of sizes {1,2,3,5}; access chains of every depth; one constant index from -2 to size+1 at each "
        "dimension (the others in range); decimal / hex / octal spelling; reads and (full-depth) writes; local, "
        "global and parameter arrays (quick: storage and spelling rotate over the grid, thorough: full product). "
        "(2) vectors float/int/uint x 2-4: constant component index -2..5, read and write. (3) matrices float3x3 / "
        "float4x4: row index and column index -2..5. (4) index expression types: int, uint, float variable, float "
        "literal, comparison result, arithmetic, vector, on arrays, vectors and matrices; dynamic in-type indices must "
        "never be rejected. (5) swizzles: every mask of length 1-3 over {x,y,z,w,r,g,b,a,q,s} on float/int vectors "
        "of size 2-4 and (quick: every 9th, thorough: all) of length 4, reads and non-repeating writes, alone and after a "
        "valid use of the same mask on a wider vector in the same function; array chains also with dynamic neighbours "
        "of the constant index. Accepted = "
        "Compile does not fail in the front end. Non-trivial = constant on either side of a boundary (c in {-1, 0, "
        "size-1, size}), a non-int index type, or a mask with >= 2 letters; distinct by source text.")
ASSUMPTIONS = [
    "accept = the front end (parser + AST passes) lets the program through; a failure in lowering or later is C05's concern",
    "constant = an integer literal written directly as the index (the statement's 'constant index')",
    "swizzles on scalars are not generated (the statement speaks of vectors)",
]

SIZES = [1, 2, 3, 5]


def spell(c, style):
    if c < 0 or style == "dec":
        return str(c)
    if style == "hex":
        return "0x%X" % c
    return "0" + oct(c)[2:] if c else "0"


def wrap(storage, decl, body_stmts, ret="int", retexpr="0"):
    """decl: 'T name' ; storage: local | global | param"""
    if storage == "global":
        return "%s ;\nexport function f ( int p ) -> %s {\n %s\n return %s ;\n}\n" % (decl, ret, "\n ".join(body_stmts), retexpr)
    if storage == "param":
        return "export function f ( %s , int p ) -> %s {\n %s\n return %s ;\n}\n" % (decl, ret, "\n ".join(body_stmts), retexpr)
    return "export function f ( int p ) -> %s {\n %s ;\n %s\n return %s ;\n}\n" % (ret, decl, "\n ".join(body_stmts), retexpr)


def judge(ctx, src, accept, sig, why, case, boundary):
    ctx.count()
    if boundary:
        ctx.nontrivial(src)
    ctx.label("expected-accept" if accept else "expected-reject")
    c = adapter.compile_src(src)
    front_reject = (not c.ok) and c.stage == "front"
    if accept and front_reject:
        ctx.fail("rejects-valid|" + sig, "%s must be accepted, got %s\n%s\n%s" % (why, c.why(), src, c.out[-200:]), case)
    elif not accept and not front_reject:
        ctx.fail("accepts-invalid|" + sig, "%s must be rejected, got %s\n%s" % (why, c.why(), src), case)
    elif ctx.want_sample() and boundary:
        ctx.sample({"source": src, "expected": "accepted" if accept else "rejected"})


# -- (1) arrays ------------------------------------------------------------------------

def array_case(ctx, case):
    shape, depth, dim, c, style, rw, storage = case[:7]
    others = case[7] if len(case) > 7 else "const"
    idx = ["0" if others == "const" else "p"] * depth
    idx[dim] = spell(c, style)
    access = "t" + "".join(" [ %s ]" % i for i in idx)
    decl = "int %s t" % "".join("[ %d ]" % d for d in shape)
    if rw == "write":
        stmts = ["%s = 7 ;" % access]
    else:
        stmts = ["%s ;" % access] if depth < len(shape) else ["int r = %s ;" % access]
    src = wrap(storage, decl, stmts)
    size = shape[dim]
    accept = 0 <= c < size
    where = "below" if c < 0 else ("above" if c >= size else "inside")
    sig = "array|dim%d-of-%d|%s" % (dim, len(shape), where)
    ctx.label("array:%s:%s:%s" % (rw, storage, style))
    ctx.label("array-other-indices:" + others)
    judge(ctx, src, accept, sig, "constant index %d into dimension %d (size %d) of int%s" % (
        c, dim, size, "".join("[%d]" % d for d in shape)), case, c in (-1, 0, size - 1, size))


def array_items(full):
    out = []
    k = 0
    styles = ["dec", "hex", "oct"]
    storages = ["local", "global", "param"]
    for n in (1, 2, 3):
        for shape in itertools.product(SIZES, repeat=n):
            for depth in range(1, n + 1):
                for dim in range(depth):
                    for c in range(-2, shape[dim] + 2):
                        rws = ["read", "write"] if depth == n else ["read"]
                        for rw in rws:
                            if full:
                                for sty in styles:
                                    if c < 0 and sty != "dec":
                                        continue
                                    for sto in storages:
                                        out.append((shape, depth, dim, c, sty, rw, sto))
                            else:
                                k += 1
                                sty = "dec" if c < 0 else styles[k % 3]
                                out.append((shape, depth, dim, c, sty, rw, storages[(k // 3) % 3]))
                            if depth > 1 and (full or c in (-1, shape[dim])):
                                # the other indices of the chain are dynamic (p), left and right of the constant
                                out.append((shape, depth, dim, c, "dec", rw, storages[k % 3], "dynamic"))
    return out


# -- (2) vectors, (3) matrices ----------------------------------------------------------

def vecmat_case(ctx, case):
    kind = case[0]
    if kind == "vec":
        _, comp, n, c, rw, storage, style = case
        ty = "%s%d" % (comp, n)
        one = "1.0" if comp == "float" else "1"
        stmts = ["v [ %s ] = %s ;" % (spell(c, style), one)] if rw == "write" else ["%s r = v [ %s ] ;" % (comp, spell(c, style))]
        src = wrap(storage, "%s v" % ty, stmts)
        judge(ctx, src, 0 <= c < n, "vector|%s" % ("below" if c < 0 else "above" if c >= n else "inside"),
              "constant component index %d of %s" % (c, ty), case, c in (-1, 0, n - 1, n))
        ctx.label("vector:" + rw)
        return
    _, n, which, c, rw, storage, style = case
    ty = "float%dx%d" % (n, n)
    cs = spell(c, style)
    if which == "row":
        stmts = (["m [ %s ] = float%d ( %s ) ;" % (cs, n, " , ".join(["1.0"] * n))] if rw == "write"
                 else ["float%d r = m [ %s ] ;" % (n, cs)])
    elif which == "row-of-element":
        stmts = ["m [ %s ] [ 0 ] = 1.0 ;" % cs] if rw == "write" else ["float r = m [ %s ] [ 0 ] ;" % cs]
    else:
        stmts = ["m [ 0 ] [ %s ] = 1.0 ;" % cs] if rw == "write" else ["float r = m [ 0 ] [ %s ] ;" % cs]
    src = wrap(storage, "%s m" % ty, stmts)
    judge(ctx, src, 0 <= c < n, "matrix|%s|%s" % (which, "below" if c < 0 else "above" if c >= n else "inside"),
          "constant %s index %d of %s" % (which, c, ty), case, c in (-1, 0, n - 1, n))
    ctx.label("matrix:" + which)


def vecmat_items(full):
    out = []
    k = 0
    for comp in ("float", "int", "uint"):
        for n in (2, 3, 4):
            for c in range(-2, 6):
                for rw in ("read", "write"):
                    for sto in (("local", "global", "param") if full else (("local", "global", "param")[k % 3],)):
                        k += 1
                        out.append(("vec", comp, n, c, rw, sto, "dec" if c < 0 else ("dec", "hex", "oct")[k % 3]))
    for n in (3, 4):
        for which in ("row", "row-of-element", "column"):
            for c in range(-2, 6):
                for rw in ("read", "write"):
                    for sto in ("local", "global", "param"):
                        k += 1
                        out.append(("mat", n, which, c, rw, sto, "dec" if c < 0 else ("dec", "hex", "oct")[k % 3]))
    return out


# -- (4) index expression types ----------------------------------------------------------

INDEX_EXPRS = [
    ("int-variable", "i", True), ("uint-variable", "u", True), ("int-parameter", "p", True),
    ("float-variable", "x", False), ("float-literal", "1.0", False), ("float-literal-frac", "0.5", False),
    ("comparison-result", "i < 2", True), ("float-comparison-result", "x < 2.0", True),
    ("int-arithmetic", "i + 1", True), ("int-arithmetic-large", "p * 7", True), ("mixed-arithmetic", "i + x", False),
    ("float-arithmetic", "x * 2.0", False), ("vector", "w", False), ("int-vector", "iw", False),
    ("logical-result", "i && p", True), ("uint-arithmetic", "u + u", True), ("call-result-int", "gi ( i )", True),
    ("call-result-float", "gf ( x )", False), ("vector-component", "iw [ 0 ]", True), ("float-vector-component", "w . x", False),
]
TARGETS = [("array", "int [ 4 ] t", "t [ %s ]", "int"), ("array2d", "int [ 2 ] [ 3 ] t", "t [ 1 ] [ %s ]", "int"),
           ("array2d-first", "int [ 2 ] [ 3 ] t", "t [ %s ] [ 1 ]", "int"),
           ("vector", "float4 t", "t [ %s ]", "float"), ("matrix-row", "float3x3 t", "t [ %s ]", "float3"),
           ("matrix-col", "float3x3 t", "t [ 1 ] [ %s ]", "float")]


def indextype_case(ctx, case):
    (ename, etext, ok), (tname, decl, access, rty), rw = case
    helpers = ("function gi ( int a ) -> int { return a ; }\nfunction gf ( float a ) -> float { return a ; }\n")
    acc = access % etext
    if rw == "write":
        val = {"int": "1", "float": "1.0", "float3": "float3 ( 1.0 , 2.0 , 3.0 )"}[rty]
        stmt = "%s = %s ;" % (acc, val)
    else:
        stmt = "%s r = %s ;" % (rty, acc)
    src = helpers + ("export function f ( int p ) -> int {\n %s ;\n int i ;\n uint u ;\n float x ;\n float2 w ;\n int2 iw ;\n %s\n return 0 ;\n}\n"
                     % (decl, stmt))
    ctx.label("indextype:" + ename)
    judge(ctx, src, ok, "index-type|%s|%s" % (ename, tname),
          "index expression `%s` (%s) on %s" % (etext, ename, tname), case, not ok or ename not in ("int-variable", "int-parameter"))


# -- (5) swizzles --------------------------------------------------------------------------

ALPHABET = "xyzwrgbaqs"
SETS = ("xyzw", "rgba")


def mask_ok(mask, n):
    for s in SETS:
        if all(ch in s for ch in mask):
            return all(s.index(ch) < n for ch in mask)
    return False


def swizzle_case(ctx, case):
    comp, n, mask, rw = case[:4]
    after_wider = len(case) > 4
    ty = "%s%d" % (comp, n)
    rty = comp if len(mask) == 1 else "%s%d" % (comp, len(mask))
    if rw == "write":
        one = "1.0" if comp == "float" else "1"
        val = one if len(mask) == 1 else "%s ( %s )" % (rty, " , ".join([one] * len(mask)))
        stmt = "v . %s = %s ;" % (mask, val)
    else:
        stmt = "%s r = v . %s ;" % (rty, mask)
    src = "export function f ( %s v ) -> int {\n %s\n return 0 ;\n}\n" % (ty, stmt)
    if after_wider:
        # the same mask is used (validly) on a 4-component vector first
        pre = "%s q0 = q . %s ;" % (rty, mask)
        src = "export function f ( %s4 q , %s v ) -> int {\n %s\n %s\n return 0 ;\n}\n" % (comp, ty, pre, stmt)
        ctx.label("swizzle:after-valid-use-on-wider-vector")
    ok = mask_ok(mask, n)
    if not ok:
        why = ("foreign-letter" if any(ch not in "xyzwrgba" for ch in mask) else
               "mixed-sets" if not any(all(ch in s for ch in mask) for s in SETS) else "component-out-of-range")
    else:
        why = "valid"
    ctx.label("swizzle:%s:len%d" % (why, len(mask)))
    ctx.count(0)
    judge(ctx, src, ok, "swizzle|%s|%s" % (why, rw), "mask .%s on %s (%s)" % (mask, ty, why), case, len(mask) >= 2)


def swizzle_items(full):
    out = []
    for comp in ("float", "int"):
        for n in (2, 3, 4):
            for L in (1, 2, 3, 4):
                masks = ["".join(m) for m in itertools.product(ALPHABET, repeat=L)]
                if L == 4 and not full:
                    masks = masks[(n + (0 if comp == "float" else 4))::9]
                for m in masks:
                    out.append((comp, n, m, "read"))
                    if n < 4 and mask_ok(m, 4) and (L <= 2 or full or hash_mod(m) < 2):
                        out.append((comp, n, m, "read", "after-wider"))
                    if len(set(m)) == len(m) and (L <= 2 or full or hash_mod(m) == 0):
                        out.append((comp, n, m, "write"))
    return out


# -- (5) an element selection with a constant index placed INSIDE another expression ---------------------------

HUGE = [2147483647, 2147483648, 4294967295, 4294967296, 4294967297, 4294967298, 8589934593, -2147483648, -4294967295,
        -4294967296, -4294967297]


def huge_items():
    out = []
    for c in HUGE:
        for style in (("dec", "hex") if c >= 0 else ("dec",)):
            for target in ("array", "array2d-first", "array2d-last", "vector", "matrix-row", "matrix-column"):
                for rw in ("read", "write"):
                    out.append((c, style, target, rw))
    return out


def huge_case(ctx, case):
    """a constant index far outside every size (around 2^31, 2^32, 2^33 and their negatives) is out of range,
    whatever it would wrap to in 32 bits"""
    c, style, target, rw = case
    cs = spell(c, style)
    decl, acc, ety = {"array": ("int [ 4 ] t", "t [ %s ]", "int"), "array2d-first": ("int [ 2 ] [ 3 ] t", "t [ %s ] [ 1 ]", "int"),
                      "array2d-last": ("int [ 2 ] [ 3 ] t", "t [ 1 ] [ %s ]", "int"), "vector": ("float4 t", "t [ %s ]", "float"),
                      "matrix-row": ("float3x3 t", "t [ %s ] [ 0 ]", "float"), "matrix-column": ("float3x3 t", "t [ 1 ] [ %s ]", "float")}[target]
    access = acc % cs
    stmts = ["%s = %s ;" % (access, "1.0" if ety == "float" else "1")] if rw == "write" else ["%s r = %s ;" % (ety, access)]
    ctx.label("huge-constant:" + target)
    judge(ctx, wrap("local", decl, stmts), False, "huge|%s|%s" % (target, "below" if c < 0 else "above"),
          "constant index %d of %s" % (c, decl), case, True)


ENTITIES = [("array", "int [ %d ] t", "t [ %s ]", (1, 2, 3, 5)), ("array2d-last", "int [ 2 ] [ %d ] t", "t [ 1 ] [ %s ]", (2, 3)),
            ("int-vector", "int%d t", "t [ %s ]", (2, 3, 4)), ("array-of-vectors", "int2 [ %d ] t", "t [ %s ] . x", (2, 3)),
            # a single-component swizzle, spelled by position: x y z w (an out-of-range selector when position >= size)
            ("int-vector-swizzle", "int%d t", "t . %s", (2, 3))]
EMBEDDINGS = [
    ("index-of-array", "int r = o [ %s ] ;"), ("index-arithmetic", "int r = o [ p + %s ] ;"),
    ("index-of-vector", "float r = q [ %s ] ;"), ("index-of-matrix-row", "float r = m [ %s ] [ 0 ] ;"),
    ("index-of-matrix-column", "float r = m [ 1 ] [ %s ] ;"), ("index-in-index", "int r = o [ o [ %s ] ] ;"),
    ("call-argument-in-index", "int r = o [ gi ( %s ) ] ;"), ("index-of-written-element", "o [ %s ] = 1 ;"),
    ("call-argument", "int r = gi ( %s ) ;"), ("operand", "int r = 1 + %s * 2 ;"), ("condition", "if ( %s > 0 ) { p = 1 ; }"),
    ("loop-condition", "while ( %s > p ) { p = p + 1 ; }"), ("return-value", None), ("swizzle-write-value", "q . x = %s ;"),
    ("index-of-struct-array-then-field", "int r = sa [ %s ] . a ;"), ("index-of-struct-array-then-field-write", "sa [ %s ] . a = 1 ;"),
    ("index-of-struct-array-then-vector-field", "float r = sa [ %s ] . v . x ;"),
]


def nested_items():
    out = []
    for ent, decl, acc, sizes in ENTITIES:
        for n in sizes:
            for c in (range(0, 4) if ent == "int-vector-swizzle" else range(-2, n + 2)):
                for emb, _ in EMBEDDINGS:
                    out.append((ent, n, c, emb))
    return out


def nested_case(ctx, case):
    ent, n, c, emb = case
    _, decl, acc, _ = [e for e in ENTITIES if e[0] == ent][0]
    access = acc % ("xyzw"[c] if ent == "int-vector-swizzle" else str(c))
    tmpl = dict(EMBEDDINGS)[emb]
    pre = "struct P { int a ; float2 v ; }\nP [ 9 ] sa ;\nfunction gi ( int z ) -> int { return z ; }\n"
    body = [(decl % n) + " ;", "int [ 9 ] o ;", "float4 q ;", "float3x3 m ;"]
    if tmpl is None:
        src = pre + "export function f ( int p ) -> int {\n %s\n return %s ;\n}\n" % ("\n ".join(body), access)
    else:
        src = pre + "export function f ( int p ) -> int {\n %s\n %s\n return 0 ;\n}\n" % ("\n ".join(body), tmpl % access)
    ctx.label("nested:" + emb)
    judge(ctx, src, 0 <= c < n, "nested|%s|%s|%s" % (ent, emb, "below" if c < 0 else "above" if c >= n else "inside"),
          "constant index %d (size %d) in `%s`, used as %s" % (c, n, access, emb), case, c in (-1, 0, n - 1, n))


def hash_mod(m):
    return sum(ord(c) for c in m) % 5


def run(R):
    full = not R.quick
    R.enum("arrays", lambda: array_items(full), array_case, exhaustive=True, chunks=64)
    R.enum("vectors-matrices", lambda: vecmat_items(full), vecmat_case, exhaustive=True)
    R.enum("index-types", lambda: [(e, t, rw) for e in INDEX_EXPRS for t in TARGETS for rw in ("read", "write")],
           indextype_case, exhaustive=True)
    R.enum("huge-constants", huge_items, huge_case, exhaustive=True)
    R.require("huge-constant:vector")
    R.enum("nested-selections", nested_items, nested_case, exhaustive=True)
    R.require("nested:index-in-index")
    R.enum("swizzles", lambda: swizzle_items(full), swizzle_case, exhaustive=full, chunks=64)
    for l in ("expected-accept", "expected-reject", "vector:read", "vector:write", "matrix:row", "matrix:column",
              "swizzle:valid:len4", "swizzle:mixed-sets:len2", "swizzle:component-out-of-range:len1",
              "swizzle:foreign-letter:len3", "indextype:float-literal", "indextype:comparison-result",
              "array-other-indices:dynamic", "swizzle:after-valid-use-on-wider-vector"):
        R.require(l)
