"""C04 - vectors and matrices are values: component ops, swizzles, copies."""
import itertools

from .. import gen, genx
from .. import model as M
from ..model import INT, FLOAT
from . import c01

LEVEL = "exploration"
RULE = ("(i) exhaustive: every swizzle READ mask of length 1-4 (with repetition) for vector sizes 2-4, both letter sets, "
        "float and int (1 960 masks); every non-repeating WRITE mask (332), written into a parameter that is then "
        "returned whole; every constant and every in-range dynamic index for v[i], m[i], m[i][j] reads and writes on "
        "float2-4 / int2-4 / float3x3 / float4x4. (ii) Hypothesis programs (genx.vector_case) over float/int vectors "
        "and float3x3/float4x4: constructors from scalars and smaller vectors, component-wise + -, comparisons, vector "
        "or matrix * / scalar, matrix +/- matrix, matrix product, row/element selection, swizzles nested in larger "
        "expressions, writes through index / swizzle / nested chains (m[i][j] = x, m[i].xy = ...), copies followed by "
        "a write to one side, compound forms (v.xy += w), loops and branches around them. Oracle: reference interpreter "
        "(vf/interp.py) with list values and functional update: returned value, argument objects left untouched, "
        "globals. Non-trivial = the executed trace contains >= 2 vector/matrix operations (component-wise op, swizzle, "
        "element access, constructor) or a component write followed by a read; distinct by (source, input).")
ASSUMPTIONS = [
    "vf/interp.py implements the component-wise value semantics of the statement",
    "operands of one operation share a component type (mixed component types are C05's concern)",
    "component-wise means the scalar operation applied per component: an integer vector divided by an integer scalar "
    "truncates each component toward zero like integer scalars do (C01)",
]

VEC_NOTES = ["vecmat-op", "swizzle-read", "swizzle-write", "element-write", "construct-vector", "construct-matrix",
             "index:v", "index:m"]


def nontrivial(tr):
    n = sum(tr.get(k, 0) for k in VEC_NOTES)
    return n >= 2 or (tr.get("swizzle-write", 0) + tr.get("element-write", 0) >= 1 and n >= 1)


def check(ctx, case):
    c01.check_case(ctx, case, prop="C04", nontrivial=nontrivial, extra_labels=VEC_NOTES, check_args=True)


def _vals(comp, n, base=1):
    if comp == "float":
        return [base + 0.5 * k for k in range(n)]
    return [base + 3 * k for k in range(n)]


def enum_items():
    items = []
    for comp in ("float", "int"):
        for n in (2, 3, 4):
            vt = M.vec(comp, n)
            for letters in (genx.XYZW, genx.RGBA):
                for L in (1, 2, 3, 4):
                    for mask in itertools.product(letters[:n], repeat=L):
                        items.append(("swz-read", vt, "".join(mask)))
                for L in range(1, n + 1):
                    for mask in itertools.permutations(letters[:n], L):
                        items.append(("swz-write", vt, "".join(mask)))
            for i in range(n):
                for how in ("const", "dyn"):
                    items.append(("vec-index-read", vt, (i, how)))
                    items.append(("vec-index-write", vt, (i, how)))
    for n in (3, 4):
        mt = M.mat("float", n, n)
        for i in range(n):
            for how in ("const", "dyn"):
                items.append(("mat-row-read", mt, (i, how)))
                items.append(("mat-row-write", mt, (i, how)))
                for j in range(n):
                    for how2 in ("const", "dyn"):
                        items.append(("mat-el-read", mt, (i, how, j, how2)))
                        items.append(("mat-el-write", mt, (i, how, j, how2)))
    return items


def _idx(value, how, name):
    return M.Lit(value, INT, str(value)) if how == "const" else M.Var(name, INT)


def build(item):
    kind, ty, spec = item
    comp = ty[1]
    cty = ("s", comp)
    v = M.Var("v", ty)
    params = [(ty, "v")]
    args = {}
    if kind == "swz-read":
        rty = cty if len(spec) == 1 else M.vec(comp, len(spec))
        body = [M.Return(M.Member(v, spec, rty))]
        ret = rty
    elif kind == "swz-write":
        sty = cty if len(spec) == 1 else M.vec(comp, len(spec))
        params.append((sty, "w"))
        body = [M.ExprStmt(M.Assign(M.Member(v, spec, sty), "=", M.Var("w", sty))), M.Return(v)]
        ret = ty
        args["w"] = _vals(comp, len(spec), 50)[0] if len(spec) == 1 else _vals(comp, len(spec), 50)
    elif kind in ("vec-index-read", "vec-index-write"):
        i, how = spec
        params.append((INT, "i"))
        args["i"] = i
        if kind == "vec-index-read":
            body = [M.Return(M.Index(v, _idx(i, how, "i"), cty))]
            ret = cty
        else:
            params.append((cty, "w"))
            args["w"] = _vals(comp, 1, 70)[0]
            body = [M.ExprStmt(M.Assign(M.Index(v, _idx(i, how, "i"), cty), "=", M.Var("w", cty))), M.Return(v)]
            ret = ty
    elif kind in ("mat-row-read", "mat-row-write"):
        i, how = spec
        rowty = M.vec(comp, ty[3])
        params.append((INT, "i"))
        args["i"] = i
        if kind == "mat-row-read":
            body = [M.Return(M.Index(v, _idx(i, how, "i"), rowty))]
            ret = rowty
        else:
            params.append((rowty, "w"))
            args["w"] = _vals(comp, ty[3], 90)
            body = [M.ExprStmt(M.Assign(M.Index(v, _idx(i, how, "i"), rowty), "=", M.Var("w", rowty))), M.Return(v)]
            ret = ty
    else:
        i, how, j, how2 = spec
        rowty = M.vec(comp, ty[3])
        params += [(INT, "i"), (INT, "j")]
        args["i"], args["j"] = i, j
        el = M.Index(M.Index(v, _idx(i, how, "i"), rowty), _idx(j, how2, "j"), cty)
        if kind == "mat-el-read":
            body = [M.Return(el)]
            ret = cty
        else:
            params.append((cty, "w"))
            args["w"] = 77.5
            body = [M.ExprStmt(M.Assign(el, "=", M.Var("w", cty))), M.Return(v)]
            ret = ty
    if M.is_vec(ty):
        args["v"] = _vals(comp, ty[2])
    else:
        args["v"] = [[10.0 * r + c + 0.5 for c in range(ty[3])] for r in range(ty[2])]
    f = M.Func("f", params, ret, M.Block(body), True)
    return gen.Case(M.Program([], [], [f]), "f", [(args, {})], "full", note=kind)


def enum_case(ctx, item):
    case = build(item)
    ctx.label("enum:" + item[0])
    c01.check_case(ctx, case, prop="C04", nontrivial=lambda tr: True, extra_labels=VEC_NOTES, check_args=True)


def run(R):
    R.enum("exhaustive-masks-indices", enum_items, enum_case)
    R.hyp("generated", genx.vector_case(), check, examples=R.pick(200, 4000), shrink="ast")
    for l in ("enum:swz-read", "enum:swz-write", "enum:mat-el-write", "vecmat-op", "swizzle-read", "swizzle-write",
              "element-write", "construct-vector", "construct-matrix", "index:v", "index:m"):
        R.require(l)
