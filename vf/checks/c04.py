"""C04 - vectors and matrices are values: component ops, swizzles, copies."""
import itertools

from .. import gen, genx
from .. import model as M
from ..model import INT, FLOAT
from . import c01

LEVEL = "exploration"
RULE = ("(i) exhaustive: every swizzle READ mask of length 1-4 (with repetition) for vector sizes 2-4, both letter sets, "
        "float and int (1 960 masks); every non-repeating WRITE mask (332), written into a parameter that is then "
        "returned whole; every constant and every in-range dynamic index for v[i], m[i], m[i][j] reads and writes on "
        "float2-4 / int2-4 / float3x3 / float4x4. (ii) Hypothesis programs (genx.vector_case) over float/int vectors "
        "and float3x3/float4x4: constructors from scalars and smaller vectors, component-wise + -, comparisons, vector "
        "or matrix * / scalar, matrix +/- matrix, matrix product, row/element selection, swizzles nested in larger "
        "expressions, writes through index / swizzle / nested chains (m[i][j] = x, m[i].xy = ...), copies followed by "
        "a write to one side, compound forms (v.xy += w), loops and branches around them. (iii) exhaustive: int/uint vectors "
        "of size 2-4 built from every composition of scalar and vector parts of which at least one is float (non-integral "
        "values, both signs), and float vectors / matrices divided by non-power-of-two scalars compared exactly. Oracle: reference interpreter "
        "(vf/interp.py) with list values and functional update: returned value, argument objects left untouched, "
        "globals. Non-trivial = the executed trace contains >= 2 vector/matrix operations (component-wise op, swizzle, "
        "element access, constructor) or a component write followed by a read; distinct by (source, input).")
ASSUMPTIONS = [
    "vf/interp.py implements the component-wise value semantics of the statement",
    "operands of one operation share a component type (mixed component types are C05's concern)",
    "component-wise means the scalar operation applied per component: an integer vector divided by an integer scalar "
    "truncates each component toward zero like integer scalars do (C01)",
]

VEC_NOTES = ["vecmat-op", "swizzle-read", "swizzle-write", "element-write", "construct-vector", "construct-matrix",
             "index:v", "index:m"]


def nontrivial(tr):
    n = sum(tr.get(k, 0) for k in VEC_NOTES)
    return n >= 2 or (tr.get("swizzle-write", 0) + tr.get("element-write", 0) >= 1 and n >= 1)


def check(ctx, case):
    # the values of vector / matrix expressions do not depend on the optimisation setting either
    c01.check_case(ctx, case, prop="C04", nontrivial=nontrivial, extra_labels=VEC_NOTES, check_args=True)
    c01.check_case(ctx, case, prop="C04", nontrivial=nontrivial, extra_labels=VEC_NOTES, check_args=True, optimize=True)


def _vals(comp, n, base=1):
    if comp == "float":
        return [base + 0.5 * k for k in range(n)]
    return [base + 3 * k for k in range(n)]


def enum_items():
    items = []
    for comp in ("float", "int"):
        for n in (2, 3, 4):
            vt = M.vec(comp, n)
            for letters in (genx.XYZW, genx.RGBA):
                for L in (1, 2, 3, 4):
                    for mask in itertools.product(letters[:n], repeat=L):
                        items.append(("swz-read", vt, "".join(mask)))
                for L in range(1, n + 1):
                    for mask in itertools.permutations(letters[:n], L):
                        items.append(("swz-write", vt, "".join(mask)))
            for i in range(n):
                for how in ("const", "dyn"):
                    items.append(("vec-index-read", vt, (i, how)))
                    items.append(("vec-index-write", vt, (i, how)))
    for n in (3, 4):
        mt = M.mat("float", n, n)
        for i in range(n):
            for how in ("const", "dyn"):
                items.append(("mat-row-read", mt, (i, how)))
                items.append(("mat-row-write", mt, (i, how)))
                for j in range(n):
                    for how2 in ("const", "dyn"):
                        items.append(("mat-el-read", mt, (i, how, j, how2)))
                        items.append(("mat-el-write", mt, (i, how, j, how2)))
    return items


def _idx(value, how, name):
    return M.Lit(value, INT, str(value)) if how == "const" else M.Var(name, INT)


def build(item):
    kind, ty, spec = item
    comp = ty[1]
    cty = ("s", comp)
    v = M.Var("v", ty)
    params = [(ty, "v")]
    args = {}
    if kind == "swz-read":
        rty = cty if len(spec) == 1 else M.vec(comp, len(spec))
        body = [M.Return(M.Member(v, spec, rty))]
        ret = rty
    elif kind == "swz-write":
        sty = cty if len(spec) == 1 else M.vec(comp, len(spec))
        params.append((sty, "w"))
        body = [M.ExprStmt(M.Assign(M.Member(v, spec, sty), "=", M.Var("w", sty))), M.Return(v)]
        ret = ty
        args["w"] = _vals(comp, len(spec), 50)[0] if len(spec) == 1 else _vals(comp, len(spec), 50)
    elif kind in ("vec-index-read", "vec-index-write"):
        i, how = spec
        params.append((INT, "i"))
        args["i"] = i
        if kind == "vec-index-read":
            body = [M.Return(M.Index(v, _idx(i, how, "i"), cty))]
            ret = cty
        else:
            params.append((cty, "w"))
            args["w"] = _vals(comp, 1, 70)[0]
            body = [M.ExprStmt(M.Assign(M.Index(v, _idx(i, how, "i"), cty), "=", M.Var("w", cty))), M.Return(v)]
            ret = ty
    elif kind in ("mat-row-read", "mat-row-write"):
        i, how = spec
        rowty = M.vec(comp, ty[3])
        params.append((INT, "i"))
        args["i"] = i
        if kind == "mat-row-read":
            body = [M.Return(M.Index(v, _idx(i, how, "i"), rowty))]
            ret = rowty
        else:
            params.append((rowty, "w"))
            args["w"] = _vals(comp, ty[3], 90)
            body = [M.ExprStmt(M.Assign(M.Index(v, _idx(i, how, "i"), rowty), "=", M.Var("w", rowty))), M.Return(v)]
            ret = ty
    else:
        i, how, j, how2 = spec
        rowty = M.vec(comp, ty[3])
        params += [(INT, "i"), (INT, "j")]
        args["i"], args["j"] = i, j
        el = M.Index(M.Index(v, _idx(i, how, "i"), rowty), _idx(j, how2, "j"), cty)
        if kind == "mat-el-read":
            body = [M.Return(el)]
            ret = cty
        else:
            params.append((cty, "w"))
            args["w"] = 77.5
            body = [M.ExprStmt(M.Assign(el, "=", M.Var("w", cty))), M.Return(v)]
            ret = ty
    if M.is_vec(ty):
        args["v"] = _vals(comp, ty[2])
    else:
        args["v"] = [[10.0 * r + c + 0.5 for c in range(ty[3])] for r in range(ty[2])]
    f = M.Func("f", params, ret, M.Block(body), True)
    return gen.Case(M.Program([], [], [f]), "f", [(args, {})], "full", note=kind)


def enum_case(ctx, item):
    case = build(item)
    ctx.label("enum:" + item[0])
    c01.check_case(ctx, case, prop="C04", nontrivial=lambda tr: True, extra_labels=VEC_NOTES, check_args=True)


# -- constructors that narrow (float parts into an int vector) and exact scalar division -----------------------

class TextCase:
    def __init__(self, kind, src, args, expect, note):
        self.kind, self.src, self.args, self.expect, self.note = kind, src, args, expect, note

    def show(self):
        return "// %s: %s\n%s// args=%r" % (self.kind, self.note, self.src, self.args)


def _compositions(n):
    if n == 0:
        yield ()
        return
    for first in range(1, n + 1):
        for rest in _compositions(n - first):
            yield (first,) + rest


def text_items():
    items = []
    # (a) intN / uintN built from parts (scalars and smaller vectors) of which at least one is float
    for target in ("int", "uint"):
        for n in (2, 3, 4):
            for comp in _compositions(n):
                if comp == (n,) and n == 4 and False:
                    continue
                for kinds in itertools.product(("float", "int"), repeat=len(comp)):
                    if "float" not in kinds:
                        continue
                    for negative in ((False, True) if target == "int" else (False,)):
                        params, args, parts, expect = [], {}, [], []
                        base = 1.5
                        for k, (size, ck) in enumerate(zip(comp, kinds)):
                            nm = "q%d" % k
                            tyname = ck if size == 1 else "%s%d" % (ck, size)
                            params.append("%s %s" % (tyname, nm))
                            vals = []
                            for j in range(size):
                                v = (base + 1.25 * j) if ck == "float" else int(base) + j
                                if negative and ck == "float":
                                    v = -v
                                vals.append(v)
                            base += 2.0
                            args[nm] = vals[0] if size == 1 else vals
                            parts.append(nm)
                            expect += vals
                        src = "export function f ( %s ) -> %s%d { return %s%d ( %s ) ; }\n" % (
                            " , ".join(params), target, n, target, n, " , ".join(parts))
                        items.append(TextCase("narrowing-constructor", src, args, expect,
                                              "%s%d from parts %r of component types %r%s" % (target, n, comp, kinds,
                                                                                             " (negative values)" if negative else "")))
    # (b) vector / matrix divided by a scalar that is not a power of two: each component is exactly x / s
    for ty, rows, cols in (("float2", 0, 2), ("float3", 0, 3), ("float4", 0, 4), ("float3x3", 3, 3), ("float4x4", 4, 4)):
        for s_val in (3.0, 10.0, 7.0, 49.0):
            for form in ("expr", "compound"):
                flat = [5.0, 7.0, 3.0, 1.0, 0.3, 11.0, 13.0, 2.0, 17.0, 19.0, 23.0, 0.7, 29.0, 31.0, 37.0, 41.0]
                if rows:
                    val = [[flat[(r * cols + c) % 16] for c in range(cols)] for r in range(rows)]
                    expect = [[x / s_val for x in row] for row in val]
                else:
                    val = flat[:cols]
                    expect = [x / s_val for x in val]
                body = "return v / s ;" if form == "expr" else "v /= s ; return v ;"
                src = "export function f ( %s v , float s ) -> %s { %s }\n" % (ty, ty, body)
                items.append(TextCase("exact-scalar-division", src, {"v": val, "s": s_val}, expect, "%s / %r (%s)" % (ty, s_val, form)))
    return items


def text_case(ctx, case):
    from .. import adapter
    from ..interp import deep_copy
    ctx.count()
    ctx.label("text:" + case.kind)
    c = adapter.compile_src(case.src)
    if not c.ok:
        ctx.fail("rejected|" + c.stage + "|" + c.why()[:80], "well-typed program rejected: %s\n%s" % (c.why(), case.show()), case)
        return
    ran = adapter.invoke(adapter.new_vm(adapter.link([c.ir])), "f", deep_copy(case.args), budget=10000)
    if not ran.ok:
        ctx.fail("vm-exception|" + (adapter.exc_sig(ran.exc) if ran.exc else "diverged"), "VM failed: %r\n%s" % (ran.exc, case.show()), case)
        return
    ctx.nontrivial(case.src + repr(case.args))
    got = ran.value
    if case.kind == "exact-scalar-division":
        # IEEE division is correctly rounded: x / s has one value, computed "as written"
        if got != case.expect:
            ctx.fail("wrong-value|scalar-division-not-exact", "returned %r, component-wise x / s is %r\n%s" % (got, case.expect, case.show()), case)
        return
    # narrowing: every component of an int vector is an integer; for a non-negative source value there is only one
    # candidate (rounding down and rounding toward zero agree), for a negative one both neighbours are admitted
    if not isinstance(got, list) or len(got) != len(case.expect):
        ctx.fail("wrong-value|shape", "returned %r for %d components\n%s" % (got, len(case.expect), case.show()), case)
        return
    for g_, v in zip(got, case.expect):
        integral = isinstance(g_, int) or (isinstance(g_, float) and g_.is_integer())
        okv = integral and ((g_ == int(v)) if v >= 0 else abs(g_ - v) < 1)
        if not okv:
            ctx.fail("wrong-value|narrowing-constructor", "component built from %r is %r in the returned int vector %r\n%s" % (
                v, g_, got, case.show()), case)
            return


def run(R):
    R.enum("constructors-and-division", text_items, text_case)
    R.enum("exhaustive-masks-indices", enum_items, enum_case)
    R.hyp("generated", genx.vector_case(), check, examples=R.pick(200, 4000), shrink="ast")
    for l in ("enum:swz-read", "enum:swz-write", "enum:mat-el-write", "vecmat-op", "swizzle-read", "swizzle-write",
              "element-write", "construct-vector", "construct-matrix", "index:v", "index:m"):
        R.require(l)
