"""C05 - accepted programs do not go wrong."""
from .. import adapter, allgen, genloose
from ..interp import deep_copy

LEVEL = "exploration"
RULE = ("Hypothesis programs from vf/genloose.py - the whole spellable language steered by shape only: scalars incl. uint, "
        "all 9 vector types, both matrix types, arrays of 1-3 dimensions of scalars / vectors / (global) structs, nested "
        "structs, globals of every type, calls (also void, also with conversions), every statement form, constructors used "
        "as casts, swizzles on scalars, mixed-component vector arithmetic, scalar*vector, matrix*vector, % && || on "
        "vectors, matrix comparison, chained assignment - plus the well-typed generators (scalar core, vectors, calls). "
        "A share of the loose programs is also scope-loose (the generator keeps names of closed scopes, declarations as "
        "unbraced bodies): the front end must refuse them when such a name is used. Multi-module programs (vf/genmod.py) "
        "are linked from the root and compared with the single-module compile. "
        "Each program is compiled at BOTH optimisation settings; when the front end lets it through, every exported "
        "function is invoked on generated type-correct inputs with every global set. Oracle (validity predicate): the "
        "outcome is success, ZeroDivisionError (only if the program contains a division/modulo by a non-constant) or "
        "IndexError (only if it contains an unbounded dynamic index); step-budget / wall-clock exhaustion and non-finite "
        "floats reaching a conversion are discarded; EVERYTHING else after the front end - an exception in lowering, an "
        "IR pass, linking or the VM, or a compile that succeeds unoptimised and fails optimised - is a violation, "
        "bucketed by signature <stage>|<exception type>|<innermost nsl function>[opcode]. Non-trivial = accepted, "
        "executed >= 1 instruction and uses >= 1 non-scalar type, call or loop; distinct by (source, optimisation).")
ASSUMPTIONS = [
    "front-end acceptance is the gate: a rejection by the parser or an AST pass (None / exception / exit) is a legitimate outcome",
    "None returned by a non-void function that has no return statement on the executed path is not judged (the language does not define it)",
    "known findings listed in known_findings.json are matched by signature and reported as KNOWN-FINDING, the search continues past them",
]

ALLOWED_ALWAYS = ("OverflowError", "ValueError")  # floor(inf) / floor(nan) in a cast: discarded, not judged


def vm_sig(exc):
    """call-site signature plus a normalised head of the message, so that two defects raising the same
    exception type at the same opcode (e.g. scalar * vector vs matrix * vector) stay apart"""
    import re
    msg = re.sub(r"[0-9]+", "#", str(exc))[:44]
    return "%s{%s}" % (adapter.exc_sig(exc), msg)


def judge_compile(ctx, case, src, opt):
    c = adapter.compile_src(src, optimize=opt)
    if c.ok:
        return c
    if c.stage == "front":
        return None
    sig = "compile|%s|%s" % (c.stage, adapter.exc_sig(c.exc) if c.exc is not None else c.kind)
    ctx.fail(sig, "the front end accepted the program but %s failed (optimize=%s): %s\n%s\n%s" % (
        c.stage, opt, c.why(), src, c.out[-300:]), case)
    return None


def analyse(prog):
    """What the program text itself allows (recomputed on every case, so it stays
    right when the shrinker edits the program): division/modulo by something that
    is not a non-zero literal; an index that is not a literal or a provably
    bounded form; a non-void function that can fall off its end."""
    from .. import model as M
    info = {"may_div0": False, "may_oob": False, "may_none": False, "float_into_int_store": False,
            "matrix_times_vector": False}

    def is_int_place(t):
        return t is not None and t[0] in "svm" and t[1] in ("int", "uint")

    def maybe_float(e):
        """conservative: some leaf of the expression is float-typed"""
        if e is None:
            return False
        if isinstance(e, (M.Lit, M.Var)):
            return e.ty[0] in "svm" and e.ty[1] == "float"
        if isinstance(e, M.Bin):
            return maybe_float(e.l) or maybe_float(e.r)
        if isinstance(e, M.Assign):
            return maybe_float(e.value)
        if isinstance(e, (M.Index, M.Member)):
            t = e.ty
            return (t is not None and t[0] in "svm" and t[1] == "float") or maybe_float(e.base)
        if isinstance(e, M.Construct):
            return e.ty[1] == "float" or any(maybe_float(a) for a in e.args)
        if isinstance(e, M.Call):
            return e.ty[0] in "svm" and e.ty[1] == "float"
        if isinstance(e, M.Affix):
            return e.var.ty[1] == "float"
        return True

    def nonzero_lit(e):
        return isinstance(e, M.Lit) and e.value != 0

    def expr(e):
        if e is None or isinstance(e, (M.Lit, M.Var)):
            return
        if isinstance(e, M.Bin):
            if e.op == "*" and e.l.ty[0] == "m" and e.r.ty[0] == "v":
                info["matrix_times_vector"] = True
            if e.op in ("/", "%") and not nonzero_lit(e.r):
                info["may_div0"] = True
            expr(e.l)
            expr(e.r)
        elif isinstance(e, M.Assign):
            if is_int_place(e.target.ty) and maybe_float(e.value):
                info["float_into_int_store"] = True
            if e.op == "/=" and not nonzero_lit(e.value):
                info["may_div0"] = True
            expr(e.target)
            expr(e.value)
        elif isinstance(e, M.Index):
            i = e.idx
            bt = e.base.ty
            size = bt[2][0] if bt[0] == "a" else bt[2] if bt[0] in "vm" else 0
            # provably in range: a literal (checked statically by the compiler), or `x % k` with a literal
            # 0 < k <= size (Python's % with a positive modulus is never negative).  Everything else is a
            # dynamic index that may legitimately be out of range - including loop counters, whose bounds
            # the shrinker is free to edit.
            safe = isinstance(i, M.Lit) or (
                isinstance(i, M.Bin) and i.op == "%" and isinstance(i.r, M.Lit) and isinstance(i.r.value, int)
                and 0 < i.r.value <= size)
            if not safe:
                info["may_oob"] = True
            expr(e.base)
            expr(i)
        elif isinstance(e, M.Member):
            expr(e.base)
        elif isinstance(e, (M.Call, M.Construct)):
            for a in e.args:
                expr(a)
        elif isinstance(e, M.Affix):
            pass

    def stmt(s):
        if s is None:
            return
        if isinstance(s, M.Decl):
            if s.init is not None and is_int_place(s.ty) and maybe_float(s.init):
                info["float_into_int_store"] = True
            expr(s.init)
        elif isinstance(s, M.ExprStmt):
            expr(s.e)
        elif isinstance(s, M.Block):
            for x in s.stmts:
                stmt(x)
        elif isinstance(s, M.If):
            expr(s.cond)
            stmt(s.then)
            stmt(s.els)
        elif isinstance(s, M.For):
            if s.init is not None:
                expr(s.init.init)
            expr(s.cond)
            expr(s.next)
            stmt(s.body)
        elif isinstance(s, (M.While, M.Do)):
            expr(s.cond)
            stmt(s.body)
        elif isinstance(s, M.Return):
            if s.e is not None and is_int_place(cur[0].ret) and maybe_float(s.e):
                info["float_into_int_store"] = True
            expr(s.e)

    cur = [None]
    for f in prog.funcs:
        cur[0] = f
        stmt(f.body)
        if f.ret != M.VOID and not (f.body.stmts and isinstance(f.body.stmts[-1], M.Return)):
            info["may_none"] = True
    return info


def check(ctx, case):
    src = case.source()
    meta = dict(getattr(case, "meta", {"features": []}))
    meta.update(analyse(case.prog))
    entries = getattr(case, "entries", [case.entry])
    inputs = getattr(case, "all_inputs", {case.entry: case.inputs})
    ctx.count(2)   # one evaluation = one program at one optimisation setting
    ctx.label("gen:" + (case.note or "core"))
    accepted_any = False
    results = {}
    unopt_ok = set()   # (entry, input index) on which the unoptimised module succeeded
    for opt in (False, True):
        c = judge_compile(ctx, case, src, opt)
        results[opt] = c
        if c is None:
            continue
        accepted_any = True
        try:
            program = adapter.link([c.ir])
        except Exception as e:
            ctx.fail("link|" + adapter.exc_sig(e), "linking an accepted module failed: %r\n%s" % (e, src), case)
            continue
        executed = 0
        slow = False
        for entry in entries:
            if slow:
                break
            for ii, (args, gl) in enumerate(inputs.get(entry, [])):
                vm = adapter.new_vm(program)
                for k, v in deep_copy(gl).items():
                    vm.SetGlobal(k, v)
                ran = adapter.invoke(vm, entry, deep_copy(args), budget=300000)
                executed += ran.steps
                if ran.ok:
                    if not opt:
                        unopt_ok.add((entry, ii))
                    continue
                if ran.diverged:
                    ctx.discard("step-budget-or-wall-clock")
                    if ran.timed_out:
                        # bignum blow-up: every further run of this program would also sit out the wall-clock guard
                        slow = True
                        break
                    continue
                name = type(ran.exc).__name__
                if name in ALLOWED_ALWAYS:
                    ctx.discard("non-finite-float-in-conversion")
                    continue
                if name == "ZeroDivisionError" and meta.get("may_div0", True):
                    ctx.label("defined-failure:division-by-zero")
                    continue
                if name == "IndexError" and meta.get("may_oob", True):
                    ctx.label("defined-failure:index-out-of-range")
                    continue
                if meta.get("may_none") and "NoneType" in str(ran.exc):
                    ctx.discard("value-of-a-non-void-function-that-fell-off-its-end")
                    continue
                if name == "RecursionError":
                    ctx.discard("host-recursion-limit")
                    continue
                # a failure that only the optimised module shows is a different defect than one both show
                only_opt = "|only-when-optimised" if (opt and (entry, ii) in unopt_ok) else ""
                # Two recorded findings produce garbage values whose later failure site varies, so they are
                # attributed structurally (by what the program text contains) instead of by failure site:
                if meta.get("matrix_times_vector") and not only_opt:
                    sig = "vm|program-multiplies-a-matrix-by-a-vector"
                elif "indices must be integers" in str(ran.exc) and meta.get("float_into_int_store") and not only_opt:
                    sig = "vm|float-stored-into-an-int-place-used-as-index"
                else:
                    sig = "vm|" + vm_sig(ran.exc) + only_opt
                ctx.fail(sig, "accepted program fails in the VM (optimize=%s%s): %r\ninvoke %s(%r) globals=%r\n%s" % (
                    opt, ", the unoptimised module succeeds on this input" if only_opt else "", ran.exc, entry, args, gl, src), case)
        if slow:
            ctx.label("abandoned-after-wall-clock-guard")
            break
        if executed and _uses_nonscalar(src):
            ctx.nontrivial((src, opt))
    if results.get(False) is not None and results.get(True) is None and accepted_any:
        pass  # already reported by judge_compile unless the optimised compile was rejected by the front end (impossible)
    if accepted_any:
        ctx.label("accepted")
        for f in meta.get("features", []):
            ctx.label("feature-accepted:" + f)
        if ctx.want_sample() and meta.get("features"):
            ctx.sample({"source": src, "features": meta.get("features")})
    else:
        ctx.label("rejected-by-front-end")
        for f in meta.get("features", []):
            ctx.label("feature-rejected:" + f)


def _uses_nonscalar(src):
    return any(t in src for t in ("float2", "float3", "float4", "int2", "int3", "int4", "uint2", "uint3", "uint4",
                                  "3x3", "4x4", "[", "struct", "for", "while", "do", "( "))


def multi_module(ctx, case):
    """accepted programs made of several separately compiled modules, linked from the root: they must run like the
    same functions in one module (in particular: no failure in the linker or the VM that the single module lacks)"""
    from . import c16
    c16.check(ctx, case)
    ctx.label("multi-module-program")


def run(R):
    from .. import genmod
    R.hyp("multi-module", genmod.modules_case(), multi_module, examples=R.pick(25, 200))
    R.require("multi-module-program")
    R.hyp("loose", genloose.loose_case(), check, examples=R.pick(300, 8000), shrink="ast")
    R.hyp("well-typed", allgen.any_case(loose=False), check, examples=R.pick(60, 2000), shrink="ast")
    R.require("accepted", R.pick(1200, 20000))
    R.require("rejected-by-front-end")
