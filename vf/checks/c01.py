"""C01 - compiled scalar-core programs compute what the source says (VM)."""
from .. import adapter, gen, interp
from ..compare import same
from ..interp import OutOfDomain, deep_copy

LEVEL = "exploration"
RULE = ("Generated well-typed scalar-core programs (gen.core_case: int/float params, scalar/array/struct globals, "
        "local arrays/structs, all 13 binary operators with mixed int/float operands, =, += -= *= /=, ++/-- pre/post, "
        "if/else, for/while/do nested to depth 3 with break/continue, early return; printed with full or minimal "
        "parentheses) x 4 input vectors each; the reference interpreter (vf/interp.py) gives the expected return value "
        "and final globals; inputs outside the stated domain (int overflow, /0, index out of range, non-terminating "
        "within the step budget) are discarded and counted. Non-trivial = in-domain run whose trace has >= 2 operator "
        "applications and >= 1 taken branch or loop iteration; distinct by hash of (source, input).")
ASSUMPTIONS = [
    "vf/interp.py implements the C-like semantics named in the statement; behaviour the statement leaves open "
    "(% with negative operands, float->int conversion, side effects inside operands, wrap-around) is never generated or is discarded",
    "floats compared with rel_tol=1e-9 (both sides compute in IEEE double in the same order); ints exactly",
    "a VM run exceeding 200*S+10000 instructions (S = reference AST steps) is classified as divergence",
]

TRACE_CLASSES = ["iter:for", "iter:while", "iter:do", "break:for", "break:while", "break:do",
                 "continue:for", "continue:while", "continue:do", "flow-in-nested-loop", "int-div",
                 "mixed-promotion", "mixed-compare", "array-write", "field-write", "compound-assign",
                 "decl-in-loop", "aggregate-redeclared-in-loop", "affix:pre", "affix:post", "index:a", "field-read"]


def program_labels(ctx, case):
    src = case.source()
    if case.paren_mode == "min":
        ctx.label("paren:min")


def check_case(ctx, case, prop="C01", nontrivial=None, extra_labels=(), check_args=False):
    prog = case.prog
    src = case.source()
    expected = []
    for args, gl in case.inputs:
        try:
            r = interp.run(prog, case.entry, args, gl, step_limit=4000)
            expected.append(r)
        except OutOfDomain as e:
            expected.append(None)
            ctx.discard("ood:" + e.reason)
    ctx.count(len(case.inputs))
    if all(e is None for e in expected):
        return
    c = adapter.compile_src(src)
    if not c.ok:
        ctx.fail("rejected|" + c.stage + "|" + c.why()[:90],
                 "well-typed program rejected: %s\n%s" % (c.why(), c.out[-400:]), case)
        return
    try:
        program = adapter.link([c.ir])
    except Exception as e:
        ctx.fail("link|" + adapter.exc_sig(e), "link failed: %r" % (e,), case)
        return
    if ctx.want_sample():
        ctx.sample({"source": src, "inputs": [repr(i) for i in case.inputs[:2]]})
    for (args, gl), exp in zip(case.inputs, expected):
        if exp is None:
            continue
        vm = adapter.new_vm(program)
        g2 = deep_copy(gl)
        for k, v in g2.items():
            vm.SetGlobal(k, v)
        a2 = deep_copy(args)
        ran = adapter.invoke(vm, case.entry, a2, budget=200 * exp.steps + 10000)
        tr = exp.trace
        for k in TRACE_CLASSES:
            if k in tr:
                ctx.label(k)
        for k in extra_labels:
            if k in tr:
                ctx.label(k)
        nt = tr.get("op", 0) >= 2 and any(k.startswith(("iter:", "branch-taken", "branch-else")) for k in tr)
        if nontrivial is not None:
            nt = nontrivial(tr)
        if nt:
            ctx.nontrivial((src, repr(args), repr(gl)))
        inp = "args=%r globals=%r" % (args, gl)
        if ran.timed_out:
            ctx.discard("vm-wall-clock-guard (inconclusive)")
            continue
        if ran.diverged:
            ctx.fail("diverges", "source terminates (reference: %d steps, value %r) but the compiled code ran > %d VM steps\n%s" % (
                exp.steps, exp.value, ran.steps, inp), case)
            return
        if not ran.ok:
            ctx.fail("vm-exception|" + adapter.exc_sig(ran.exc),
                     "VM raised %r; reference value %r\n%s" % (ran.exc, exp.value, inp), case)
            return
        if not same(ran.value, exp.value):
            ctx.fail("wrong-value", "VM returned %r, reference %r\n%s" % (ran.value, exp.value, inp), case)
            return
        if check_args:
            for k, v in args.items():
                if isinstance(v, list) and not same(a2[k], v):
                    ctx.fail("argument-object-mutated", "host argument %s was %r, is %r after the call\n%s" % (k, v, a2[k], inp), case)
                    return
        got_g = {k: vm.GetGlobal(k) for k in gl}
        if not same(got_g, exp.globals):
            ctx.fail("wrong-globals", "globals after call: VM %r, reference %r\n%s" % (got_g, exp.globals, inp), case)
            return


def run(R):
    R.hyp("core", gen.core_case(), check_case, examples=R.pick(300, 5000), shrink="ast")
    for k in ["iter:for", "iter:while", "iter:do", "break:for", "continue:for", "continue:while",
              "continue:do", "int-div", "mixed-promotion", "array-write", "field-write",
              "compound-assign", "decl-in-loop", "aggregate-redeclared-in-loop"]:
        R.require(k)
