"""C01 - compiled scalar-core programs compute what the source says (VM)."""
from .. import adapter, gen, interp
from ..compare import same
from ..compare import same as _same
from ..interp import OutOfDomain, deep_copy

LEVEL = "exploration"
RULE = ("Generated well-typed scalar-core programs (gen.core_case: int/float params, scalar/array/struct globals, "
        "local arrays/structs, all 13 binary operators with mixed int/float operands, =, += -= *= /=, ++/-- pre/post, "
        "if/else, for/while/do nested to depth 3 with break/continue, early return; printed with full or minimal "
        "parentheses) x 4 input vectors each; the reference interpreter (vf/interp.py) gives the expected return value "
        "and final globals; inputs outside the stated domain (int overflow, /0, index out of range, non-terminating "
        "within the step budget) are discarded and counted. Non-trivial = in-domain run whose trace has >= 2 operator "
        "applications and >= 1 taken branch or loop iteration; distinct by hash of (source, input).")
ASSUMPTIONS = [
    "vf/interp.py implements the C-like semantics named in the statement; behaviour the statement leaves open "
    "(% with negative operands, float->int conversion, side effects inside operands, wrap-around) is never generated or is discarded",
    "floats compared exactly in C01 (both sides compute in IEEE double in the order the source prescribes); other "
    "properties re-using this comparison keep rel_tol=1e-9 where an operation has no prescribed order (matrix product); ints exactly",
    "a VM run exceeding 200*S+10000 instructions (S = reference AST steps) is classified as divergence",
]

TRACE_CLASSES = ["iter:for", "iter:while", "iter:do", "break:for", "break:while", "break:do",
                 "continue:for", "continue:while", "continue:do", "flow-in-nested-loop", "int-div",
                 "mixed-promotion", "mixed-compare", "array-write", "field-write", "compound-assign",
                 "decl-in-loop", "aggregate-redeclared-in-loop", "affix:pre", "affix:post", "index:a", "field-read"]


def program_labels(ctx, case):
    src = case.source()
    if case.paren_mode == "min":
        ctx.label("paren:min")


def check_case(ctx, case, prop="C01", nontrivial=None, extra_labels=(), check_args=False, exact_floats=False, optimize=False):
    """exact_floats: the scalar core has one evaluation order (the source's), and both sides compute in IEEE double,
    so floats must agree bit for bit; callers whose programs contain operations without a prescribed summation
    order (matrix products) keep the tolerance"""
    if exact_floats:
        def same(a, b):
            return _same(a, b, 0.0, 0.0)
    else:
        same = _same
    prog = case.prog
    src = case.source()
    expected = []
    for args, gl in case.inputs:
        try:
            r = interp.run(prog, case.entry, args, gl, step_limit=4000)
            expected.append(r)
        except OutOfDomain as e:
            expected.append(None)
            ctx.discard("ood:" + e.reason)
    ctx.count(len(case.inputs))
    if all(e is None for e in expected):
        return
    c = adapter.compile_src(src, optimize=optimize)
    if not c.ok:
        ctx.fail("rejected|" + c.stage + "|" + c.why()[:90],
                 "well-typed program rejected%s: %s\n%s" % (" (optimize=True)" if optimize else "", c.why(), c.out[-400:]), case)
        return
    try:
        program = adapter.link([c.ir])
    except Exception as e:
        ctx.fail("link|" + adapter.exc_sig(e), "link failed: %r" % (e,), case)
        return
    if ctx.want_sample():
        ctx.sample({"source": src, "inputs": [repr(i) for i in case.inputs[:2]]})
    for (args, gl), exp in zip(case.inputs, expected):
        if exp is None:
            continue
        vm = adapter.new_vm(program)
        g2 = deep_copy(gl)
        for k, v in g2.items():
            vm.SetGlobal(k, v)
        a2 = deep_copy(args)
        ran = adapter.invoke(vm, case.entry, a2, budget=200 * exp.steps + 10000)
        tr = exp.trace
        for k in TRACE_CLASSES:
            if k in tr:
                ctx.label(k)
        for k in extra_labels:
            if k in tr:
                ctx.label(k)
        nt = tr.get("op", 0) >= 2 and any(k.startswith(("iter:", "branch-taken", "branch-else")) for k in tr)
        if nontrivial is not None:
            nt = nontrivial(tr)
        if nt:
            ctx.nontrivial((src, repr(args), repr(gl)))
        inp = "args=%r globals=%r" % (args, gl)
        if ran.timed_out:
            ctx.discard("vm-wall-clock-guard (inconclusive)")
            continue
        if ran.diverged:
            ctx.fail("diverges", "source terminates (reference: %d steps, value %r) but the compiled code ran > %d VM steps\n%s" % (
                exp.steps, exp.value, ran.steps, inp), case)
            return
        if not ran.ok:
            ctx.fail("vm-exception|" + adapter.exc_sig(ran.exc),
                     "VM raised %r; reference value %r\n%s" % (ran.exc, exp.value, inp), case)
            return
        if not same(ran.value, exp.value):
            ctx.fail("wrong-value", "VM returned %r, reference %r\n%s" % (ran.value, exp.value, inp), case)
            return
        if check_args:
            for k, v in args.items():
                if isinstance(v, list) and not same(a2[k], v):
                    ctx.fail("argument-object-mutated", "host argument %s was %r, is %r after the call\n%s" % (k, v, a2[k], inp), case)
                    return
        got_g = {k: vm.GetGlobal(k) for k in gl}
        if not same(got_g, exp.globals):
            ctx.fail("wrong-globals", "globals after call: VM %r, reference %r\n%s" % (got_g, exp.globals, inp), case)
            return


# ---- promotion grid: where does each operand of an arithmetic operator live, and what is its declared type ----
# An operand's DECLARED type decides between integer and floating-point arithmetic, not the value it happens to
# hold: `float t = a;` with an int a makes t a float, and t / u is then a true division.
SOURCES = {
    # name: (declared type, set-up statements, expression); {v} = the int parameter feeding it, {n} = a unique suffix
    "int-param": ("int", "", "{v}"),
    "float-param": ("float", "", "{x}"),
    "int-local": ("int", "int il{n} = {v};", "il{n}"),
    "float-local-from-int": ("float", "float fl{n} = {v};", "fl{n}"),
    "float-local-from-literal": ("float", "float fc{n} = {lit};", "fc{n}"),
    "float-local-assigned-int": ("float", "float fa{n}; fa{n} = {v};", "fa{n}"),
    "float-global-from-int": ("float", "gf{n} = {v};", "gf{n}"),
    "float-field-from-int": ("float", "sv.f{n} = {v};", "sv.f{n}"),
    "float-element-from-int": ("float", "fe[{n}] = {v};", "fe[{n}]"),
    "int-literal": ("int", "", "{lit}"),
}
GRID_INPUTS = [(7, 2, 2.5, -0.5), (-7, 2, 0.75, 3.0), (1, 3, -1.5, 8.0), (9, -4, 6.25, 0.5)]


class GridCase:
    def __init__(self, op, ls, rs, form):
        self.op, self.ls, self.rs, self.form = op, ls, rs, form

    def parts(self):
        lt, lsetup, lexpr = SOURCES[self.ls]
        rt, rsetup, rexpr = SOURCES[self.rs]
        fmt_l = dict(v="a", x="x", n=0, lit="{LL}")
        fmt_r = dict(v="b", x="y", n=1, lit="{RL}")
        return lt, lsetup.format(**fmt_l), lexpr.format(**fmt_l), rt, rsetup.format(**fmt_r), rexpr.format(**fmt_r)

    def source(self, a=7, b=2):
        lt, lsetup, lexpr, rt, rsetup, rexpr = self.parts()
        res = "float" if "float" in (lt, rt) else "int"
        pre = "float gf0; float gf1; struct SV { float f0; float f1; }\n"
        body = "SV sv; float[2] fe; %s %s " % (lsetup, rsetup)
        if self.form == "return":
            body += "return %s %s %s;" % (lexpr, self.op, rexpr)
        elif self.form == "local":
            body += "%s r = %s %s %s; return r;" % (res, lexpr, self.op, rexpr)
        else:  # compound: only when the left operand is a float variable
            body += "%s %s= %s; return %s;" % (lexpr, self.op, rexpr, lexpr)
            res = lt
        src = pre + "export function f(int a, int b, float x, float y) -> %s { %s }\n" % (res, body)
        return src.replace("{LL}", str(a)).replace("{RL}", str(b))

    def show(self):
        return "// %s  left=%s right=%s form=%s\n%s" % (self.op, self.ls, self.rs, self.form, self.source())


def grid_items():
    out = []
    for op in "+-*/":
        for ls in SOURCES:
            for rs in SOURCES:
                for form in ("return", "local", "compound"):
                    if form == "compound" and (SOURCES[ls][0] != "float" or ls == "float-param" and False or "literal" in ls and ls == "int-literal"):
                        continue
                    out.append(GridCase(op, ls, rs, form))
    return out


def grid_case(ctx, case):
    lt, _, _, rt, _, _ = case.parts()
    ctx.label("grid:%s:%s-%s" % (case.op, lt, rt))
    for a, b, x, y in GRID_INPUTS:
        ctx.count()
        src = case.source(a, b)
        lv = {"int-param": a, "float-param": x, "int-literal": a}.get(case.ls, a)
        rv = {"int-param": b, "float-param": y, "int-literal": b}.get(case.rs, b)
        if lt == "int" and rt == "int" and case.form != "compound":
            if case.op == "/":
                q = abs(lv) // abs(rv)
                exp = -q if (lv < 0) != (rv < 0) else q
            else:
                exp = {"+": lv + rv, "-": lv - rv, "*": lv * rv}[case.op]
        else:
            fl, fr = float(lv), float(rv)
            exp = {"+": fl + fr, "-": fl - fr, "*": fl * fr, "/": fl / fr}[case.op]
        c = adapter.compile_src(src)
        if not c.ok:
            ctx.fail("rejected|" + c.stage + "|" + c.why()[:90], "well-typed program rejected: %s\n%s" % (c.why(), src), case)
            return
        vm = adapter.new_vm(adapter.link([c.ir]))
        ran = adapter.invoke(vm, "f", {"a": a, "b": b, "x": x, "y": y}, budget=10000)
        if not ran.ok:
            ctx.fail("vm-exception|" + adapter.exc_sig(ran.exc), "VM raised %r; expected %r\n%s" % (ran.exc, exp, src), case)
            return
        if lt != rt or "from" in case.ls + case.rs or "assigned" in case.ls + case.rs:
            ctx.nontrivial((src,))
        if not _same(ran.value, exp, 0.0, 0.0):
            ctx.fail("wrong-value", "f(a=%d, b=%d, x=%r, y=%r) returned %r, the source says %r (declared operand types %s %s %s)\n%s" % (
                a, b, x, y, ran.value, exp, lt, case.op, rt, src), case)
            return


def exact_case(ctx, case):
    check_case(ctx, case, exact_floats=True)


def run(R):
    R.enum("promotion-grid", grid_items, grid_case)
    R.hyp("core", gen.core_case(), exact_case, examples=R.pick(300, 5000), shrink="ast")
    for k in ["iter:for", "iter:while", "iter:do", "break:for", "continue:for", "continue:while",
              "continue:do", "int-div", "mixed-promotion", "array-write", "field-write",
              "compound-assign", "decl-in-loop", "aggregate-redeclared-in-loop"]:
        R.require(k)
