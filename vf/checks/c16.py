"""C16 - separately compiled, imported and linked modules behave like one program."""
import itertools
import os
import pickle
import shutil
import tempfile

from hypothesis import strategies as st

from .. import adapter, genmod
from ..compare import exact
from ..interp import deep_copy

LEVEL = "exploration"
RULE = ("Hypothesis (vf/genmod.py): a call-graph program whose functions are partitioned into 2-4 modules forming an "
        "import DAG (pair, chain of 3 and 4, diamond, star, chain with an extra direct import), each module importing "
        "exactly the modules whose functions it calls, module-private globals, import statements placed first / "
        "between / after the declarations. The modules are compiled separately in dependency order in a private "
        "directory (the loader resolves names relative to the working directory) and stored with pickle exactly as "
        "nslc.py does. They are then linked (a) by adding only the root module, (b) by adding every subset containing "
        "the root in every order, each time from freshly loaded module objects. Oracles: (1) differential with the "
        "single-module compile of the same functions - VM value and globals on generated inputs; (2) a counting loader "
        "passed to Linker(loader=...): no module is loaded more than once per link; (3) order independence - for one "
        "subset every order gives the same outcome (same function / global tables and results, or rejection in every "
        "order); (4) two modules defining the same function or the same global are rejected in both orders. "
        "Non-trivial = >= 1 executed call crosses a module boundary; distinct by (module sources, inputs).")
ASSUMPTIONS = [
    "the single-module compile of the same functions is the reference (the statement's 'behaves exactly like')",
    "AddModule has no module name, so adding a module that another added module also imports may legitimately be "
    "rejected as a duplicate definition - but then in every order of that subset",
    "modules only use their own globals (the language has no way to name another module's global)",
]


class CountingLoader:
    def __init__(self):
        from nsl import LinearIR
        self.inner = LinearIR.FilesystemModuleLoader()
        self.loads = {}

    def Load(self, name):
        self.loads[name] = self.loads.get(name, 0) + 1
        return self.inner.Load(name)


def run_program(program, entry, inputs):
    out = []
    for args, gl in inputs:
        vm = adapter.new_vm(program)
        for k, v in deep_copy(gl).items():
            vm.SetGlobal(k, v)
        ran = adapter.invoke(vm, entry, deep_copy(args), budget=300000)
        if ran.diverged:
            out.append(("diverged",))
        elif not ran.ok:
            out.append(("exc", type(ran.exc).__name__, adapter.exc_sig(ran.exc)))
        else:
            out.append(("ok", ran.value, {k: vm.GetGlobal(k) for k in gl}, ran.steps))
    return out


def same_runs(a, b):
    if len(a) != len(b):
        return False
    for x, y in zip(a, b):
        if x[0] != y[0]:
            return False
        if x[0] == "ok" and not (exact(x[1], y[1]) and exact(x[2], y[2])):
            return False
        if x[0] == "exc" and x[1] != y[1]:
            return False
    return True


def check(ctx, case):
    ctx.count()
    ctx.label("shape:" + case.shape)
    names = [f.name for f in case.prog.funcs]
    if len(set(names)) != len(names):
        ctx.label("overload-set-split-over-modules")
    if case.prog.structs:
        ctx.label("struct-type-shared-across-modules")
    single = adapter.compile_src(case.single_source())
    if not single.ok:
        ctx.discard("single-module-program-not-accepted:" + single.stage)
        return
    ref_prog = adapter.link([single.ir])
    ref = run_program(ref_prog, case.entry, case.inputs)
    if all(r[0] != "ok" for r in ref):
        ctx.discard("reference-fails-on-every-input")
        return
    work = tempfile.mkdtemp(prefix="c16_")
    old = os.getcwd()
    os.chdir(work)
    try:
        _check_in_dir(ctx, case, ref, ref_prog)
    finally:
        os.chdir(old)
        shutil.rmtree(work, ignore_errors=True)


def recompile_check(ctx, cases):
    """history inside one directory: program 1 is compiled and linked, then program 2 - other sources under the
    same module names - is compiled over it and linked with a new Linker; it must behave like ITS single module"""
    work = tempfile.mkdtemp(prefix="c16r_")
    old = os.getcwd()
    os.chdir(work)
    try:
        for k, case in enumerate(cases):
            ctx.count()
            single = adapter.compile_src(case.single_source())
            if not single.ok:
                ctx.discard("single-module-program-not-accepted:" + single.stage)
                return
            ref_prog = adapter.link([single.ir])
            ref = run_program(ref_prog, case.entry, case.inputs)
            if all(r[0] != "ok" for r in ref):
                ctx.discard("reference-fails-on-every-input")
                return
            _check_in_dir(ctx, case, ref, ref_prog)
            if k >= 1:
                ctx.label("recompiled-in-place")
    finally:
        os.chdir(old)
        shutil.rmtree(work, ignore_errors=True)


def _load(name):
    with open(name + ".nslir", "rb") as fh:
        return pickle.load(fh)


def _check_in_dir(ctx, case, ref, ref_prog):
    from nsl import LinearIR
    names = [m["name"] for m in case.modules]
    for k, m in enumerate(case.modules):
        src = case.module_source(k)
        if case.placement[k] != "first" and m["imports"]:
            ctx.label("import-not-first")
        c = adapter.compile_src(src, optimize=getattr(case, "opt", [False] * len(case.modules))[k])
        if c.ok and getattr(case, "opt", [False] * len(case.modules))[k]:
            ctx.label("module-compiled-optimised")
        if "/" in m["name"]:
            ctx.label("module-in-a-subdirectory")
            os.makedirs(os.path.dirname(m["name"]), exist_ok=True)
        if not c.ok:
            ctx.fail("module-rejected|%s|%s" % (c.stage, (adapter.exc_sig(c.exc) if c.exc is not None else c.kind)),
                     "module %s of a program that compiles as one module is rejected when compiled separately: %s\n%s\n%s" % (
                         m["name"], c.why(), c.out[-300:], case.show()), case)
            return
        with open(m["name"] + ".nslir", "wb") as fh:
            pickle.dump(c.ir, fh)
    root = names[-1]
    nontrivial = len(names) >= 2
    if ctx.want_sample():
        ctx.sample({"shape": case.shape, "modules": {m["name"]: case.module_source(k) for k, m in enumerate(case.modules)}})

    def link(order):
        loader = CountingLoader()
        try:
            with adapter.quiet():
                linker = LinearIR.Linker(loader=loader)
                for nm in order:
                    linker.AddModule(_load(nm))
                program = linker.Link()
        except Exception as e:
            return ("rejected", type(e).__name__, adapter.exc_sig(e)), loader
        return ("linked", program), loader

    # (a) root only
    res, loader = link([root])
    if res[0] != "linked":
        ctx.fail("root-only-link-fails|" + res[2], "adding only the root module %s and linking fails: %s\n%s" % (root, res[1], case.show()), case)
        return
    over = {n: c for n, c in loader.loads.items() if c > 1}
    if over:
        ctx.fail("module-loaded-more-than-once", "root-only link loaded %r\n%s" % (over, case.show()), case)
        return
    missing = [n for n in names[:-1] if loader.loads.get(n, 0) == 0]
    prog = res[1]
    got = run_program(prog, case.entry, case.inputs)
    if sorted(prog.Functions.keys()) != sorted(ref_prog.Functions.keys()) or sorted(prog.Globals.keys()) != sorted(ref_prog.Globals.keys()):
        ctx.fail("linked-tables-differ", "function/global tables of the linked program differ from the single module: %r / %r vs %r / %r%s\n%s" % (
            sorted(prog.Functions.keys()), sorted(prog.Globals.keys()), sorted(ref_prog.Functions.keys()),
            sorted(ref_prog.Globals.keys()), (" (never loaded: %r)" % missing) if missing else "", case.show()), case)
        return
    if not same_runs(ref, got):
        ctx.fail("behaviour-differs|root-only", "linked multi-module program behaves differently from the single module: %r vs %r\n%s" % (
            got, ref, case.show()), case)
        return
    if nontrivial and any(r[0] == "ok" for r in got):
        ctx.nontrivial(case.show())
    ctx.label("root-only-linked")
    # (a') the same with the linker's own default loader (`Linker()` as nslr.py and library users create it)
    try:
        with adapter.quiet():
            dl = LinearIR.Linker()
            dl.AddModule(_load(root))
            dprog = dl.Link()
    except Exception as e:
        ctx.fail("default-loader-link-fails|" + adapter.exc_sig(e), "Linker() with its default loader fails where an explicit "
                 "FilesystemModuleLoader links: %r\n%s" % (e, case.show()), case)
        return
    dgot = run_program(dprog, case.entry, case.inputs)
    if not same_runs(ref, dgot):
        ctx.fail("behaviour-differs|default-loader", "program linked by Linker() (default loader) behaves differently from the single "
                 "module: %r vs %r\n%s" % (dgot, ref, case.show()), case)
        return
    ctx.label("default-loader-linked")
    # (a2) an umbrella module that only imports the root: linking it pulls the whole program in
    u = adapter.compile_src('import "%s" ;\n' % root)
    if u.ok:
        with open("umbrella_.nslir", "wb") as fh:
            pickle.dump(u.ir, fh)
        res, _ = link(["umbrella_"])
        if res[0] != "linked":
            ctx.fail("umbrella-link-fails|" + res[2], "linking a module that only imports %s fails: %s\n%s" % (root, res[1], case.show()), case)
            return
        ugot = run_program(res[1], case.entry, case.inputs)
        if not same_runs(ref, ugot):
            ctx.fail("behaviour-differs|umbrella", "program linked through an import-only umbrella module behaves differently: %r vs %r\n%s" % (
                ugot, ref, case.show()), case)
            return
        ctx.label("umbrella-module-linked")
    # (a3) one linker used incrementally: two modules that share an import are added and linked one after the other
    if case.shape == "diamond":
        try:
            with adapter.quiet():
                inc = LinearIR.Linker(loader=LinearIR.FilesystemModuleLoader())
                inc.AddModule(_load(names[1]))
                inc.Link()
                inc.AddModule(_load(names[2]))
                iprog = inc.Link()
        except Exception as e:
            ctx.fail("incremental-link-fails|" + adapter.exc_sig(e), "AddModule(%s); Link(); AddModule(%s); Link() on one linker fails (both import %s): %r\n%s" % (
                names[1], names[2], names[0], e, case.show()), case)
            return
        want = {k for k in ref_prog.Functions.keys() if k != case.entry}
        have = set(iprog.Functions.keys())
        if not (have <= set(ref_prog.Functions.keys())) or not (want <= have):
            ctx.fail("incremental-link-tables", "incremental link has functions %r, the three modules define %r\n%s" % (sorted(have), sorted(want), case.show()), case)
            return
        ctx.label("incremental-link")
    # (b) every subset containing the root, in every order
    others = names[:-1]
    budget = 0
    for r in range(1, len(others) + 1):
        for extra in itertools.combinations(others, r):
            outcomes = {}
            for order in itertools.permutations(list(extra) + [root]):
                budget += 1
                if budget > 40:
                    break
                res, loader = link(list(order))
                over = {n: c for n, c in loader.loads.items() if c > 1}
                if over:
                    ctx.fail("module-loaded-more-than-once", "order %r loaded %r\n%s" % (order, over, case.show()), case)
                    return
                if res[0] == "linked":
                    p = res[1]
                    desc = ("linked", tuple(sorted(p.Functions.keys())), tuple(sorted(p.Globals.keys())))
                    runs = run_program(p, case.entry, case.inputs)
                    if not same_runs(ref, runs):
                        ctx.fail("behaviour-differs|subset", "modules added in order %r: behaviour %r differs from the single module %r\n%s" % (
                            order, runs, ref, case.show()), case)
                        return
                else:
                    desc = ("rejected",)
                outcomes[order] = desc
            if len(set(outcomes.values())) > 1:
                ctx.fail("order-dependent", "the same set of modules links or not depending on the order they are added: %r\n%s" % (
                    {o: d[0] for o, d in outcomes.items()}, case.show()), case)
                return
            ctx.label("subset-orders-agree:" + next(iter(outcomes.values()))[0] if outcomes else "subset-skipped")
    # (c) duplicate definitions must be rejected
    dup_src = case.module_source(0)
    c = adapter.compile_src(dup_src)
    if c.ok and not case.modules[0]["imports"]:
        with open("dup.nslir", "wb") as fh:
            pickle.dump(c.ir, fh)
        for order in ([names[0], "dup"], ["dup", names[0]]):
            res, _ = link(order)
            ctx.label("duplicate-definition-checked")
            if res[0] == "linked":
                ctx.fail("duplicate-definition-accepted", "two modules defining the same functions%s were linked (order %r)\n%s" % (
                    " and globals" if case.modules[0]["globals"] else "", order, dup_src), case)
                return


# -- the command line path: nslc.py per module, nslr.py run on the root module ---------------------------

def cli_worker_factory(R, n_cases):
    import re
    import subprocess
    import sys

    def worker(k, ctx):
        from hypothesis import given, seed, settings, HealthCheck, Phase
        from ..runner import derive_seed
        from .. import model as M
        cases = []

        @seed(derive_seed(R.seed, "C16", "cli", k))
        @settings(max_examples=n_cases * 6, database=None, deadline=None, phases=[Phase.generate],
                  suppress_health_check=list(HealthCheck))
        @given(genmod.modules_case())
        def collect(c):
            entry = c.prog.funcs[-1]
            # nslr.py can only pass int / float arguments and cannot set globals
            if all(M.is_scalar(t) for t, _ in entry.params) and not c.prog.globals and len(cases) < n_cases:
                cases.append(c)

        collect()
        env = dict(os.environ, PYTHONPATH=adapter.REPO)
        for case in cases:
            ctx.count()
            single = adapter.compile_src(case.single_source())
            if not single.ok:
                ctx.discard("single-module-program-not-accepted")
                continue
            ref = run_program(adapter.link([single.ir]), case.entry, case.inputs)
            work = tempfile.mkdtemp(prefix="c16cli_")
            try:
                failed = False
                for i, m in enumerate(case.modules):
                    os.makedirs(os.path.dirname(os.path.join(work, m["name"])), exist_ok=True)
                    with open(os.path.join(work, m["name"] + ".nsl"), "w") as fh:
                        fh.write(case.module_source(i))
                    p = subprocess.run([sys.executable, os.path.join(adapter.REPO, "nslc.py"), "-O", "1" if getattr(case, "opt", [False] * 9)[i] else "0", "-o", m["name"] + ".nslir",
                                        m["name"] + ".nsl"], cwd=work, env=env, capture_output=True, text=True, timeout=300)
                    if p.returncode != 0 or not os.path.exists(os.path.join(work, m["name"] + ".nslir")):
                        ctx.fail("cli|nslc-fails", "nslc.py fails on module %s (exit %d): %s\n%s" % (
                            m["name"], p.returncode, (p.stdout + p.stderr)[-500:], case.show()), case)
                        failed = True
                        break
                if failed:
                    return
                entry = case.prog.funcs[-1]
                for (args, gl), r in zip(case.inputs, ref):
                    if r[0] != "ok":
                        continue
                    argv = [repr(args[n]) for _, n in entry.params]
                    p = subprocess.run([sys.executable, os.path.join(adapter.REPO, "nslr.py"), "run", case.modules[-1]["name"] + ".nslir",
                                        case.entry] + argv, cwd=work, env=env, capture_output=True, text=True, timeout=300)
                    mt = re.search(r"=\s*(\S+)\s*$", p.stdout.strip().splitlines()[-1]) if p.stdout.strip() else None
                    if p.returncode != 0 or not mt:
                        ctx.fail("cli|nslr-fails", "nslr.py run fails (exit %d) where the single-module program returns %r: %s\n%s" % (
                            p.returncode, r[1], (p.stdout + p.stderr)[-500:], case.show()), case)
                        return
                    try:
                        got = float(mt.group(1))
                    except ValueError:
                        got = None
                    ctx.nontrivial((case.show(), repr(args)))
                    ctx.label("cli-run")
                    if got is None or not exact(float(r[1]), got):
                        ctx.fail("cli|different-value", "nslr.py prints %r, the single-module program returns %r for %r\n%s" % (
                            mt.group(1), r[1], args, case.show()), case)
                        return
            finally:
                shutil.rmtree(work, ignore_errors=True)
        if ctx.want_sample() and cases:
            ctx.sample({"cli_cases": len(cases), "first": cases[0].show()[:800]})
    return worker


def run(R):
    R.custom("command-line", cli_worker_factory(R, R.pick(2, 25)), nworkers=16)
    R.require("cli-run")
    R.hyp("recompile-in-place", st.lists(genmod.modules_case(n_inputs=1), min_size=2, max_size=2), recompile_check,
          examples=R.pick(15, 300))
    R.require("recompiled-in-place")
    from . import c17
    R.hyp("struct-library", c17.lib_cases(), c17.lib_case, examples=R.pick(25, 400))
    R.require("importer-of-stored-library-ran")
    R.hyp("partitions", genmod.modules_case(), check, examples=R.pick(40, 800), shrink="hyp")
    for l in ("root-only-linked", "overload-set-split-over-modules", "struct-type-shared-across-modules", "shape:diamond", "shape:chain3", "import-not-first", "duplicate-definition-checked"):
        R.require(l)
