"""C07 - every emitted WebAssembly binary is well-formed and valid."""
import io

from hypothesis import strategies as st

from .. import adapter, allgen, genwasm, wasmeng, wasmref

LEVEL = "exploration"
RULE = ("Every module for which wasm generation completes (Compile with the wasm option returns a Result and WriteTo "
        "succeeds) is decoded and validated by vf/wasmref.py - preamble, known section ids in ascending order, exact "
        "section and body sizes, one code body per declared function, type / function / local indices in range, exports "
        "unique and naming existing functions, value-type-only results of arity <= 1, operand-stack typing of every body "
        "against its signature - and cross-checked with wasmtime.Module.validate (a disagreement between the two "
        "validators is a harness error, not a verdict). Sources: the in-subset and near-miss generators (several "
        "functions per module, int/uint/float parameters, mixed i32/f32 values, void results), the union of all program "
        "generators at both optimisation settings (almost always refused - counted), and modules built directly through "
        "the nsl.WebAssembly writer API by a Hypothesis model (random signatures, several local groups of mixed type, "
        "type-correct get/set/arithmetic sequences, unicode export names). Non-trivial = a module with >= 1 function "
        "that has >= 1 declared local and >= 1 instruction; distinct by module bytes.")
ASSUMPTIONS = [
    "vf/wasmref.py implements the WebAssembly 1.0 binary format and validation rules for the instructions that occur "
    "(numeric, variable, control); wasmtime with all post-MVP proposals disabled is the second opinion",
    "a compile or WriteTo that raises is a refusal and is not judged here (C06 judges refusals of in-subset programs)",
]


def validate_bytes(ctx, data, what, case, tag):
    ok, msg, m = wasmeng.validate_both(data)
    if m is not None and m.codes:
        if any(b.locals and b.instrs for b in m.codes):
            ctx.nontrivial(bytes(data))
        ctx.label("functions:%d" % min(len(m.codes), 4))
        if any(len({t for _, t in b.local_groups}) >= 2 for b in m.codes if b.local_groups):
            ctx.label("mixed-local-types")
        if any(not ft.results for ft in m.types):
            ctx.label("void-result")
        if any(b.size >= 128 for b in m.codes):
            ctx.label("body>=128-bytes")
    if not ok:
        ctx.fail("invalid|%s|%s" % (tag, msg.split(":")[0][:40]), "emitted module is not valid: %s\n%s\nbytes=%s" % (
            msg, what, bytes(data).hex()), case)
        return False
    return True


def program_case(ctx, case):
    src = case.source()
    for opt in ((False, True) if case.note not in ("subset",) and not str(case.note).startswith("near-miss") else (False,)):
        ctx.count()
        c = adapter.compile_src(src, optimize=opt, wasm=True)
        if not c.ok:
            ctx.discard("refused-by-compile")
            continue
        try:
            data = adapter.wasm_bytes(c.result)
        except Exception:
            ctx.discard("refused-by-writer")
            continue
        ctx.label("emitted:" + str(case.note).split(":")[0])
        if ctx.want_sample():
            ctx.sample({"source": src, "bytes": data.hex()[:160]})
        if not validate_bytes(ctx, data, src, case, str(case.note).split(":")[0] or "program"):
            return
        # writing the same module object a second time yields the same (valid) image
        try:
            again = adapter.wasm_bytes(c.result)
        except Exception as e:
            ctx.fail("second-write|exception|" + type(e).__name__, "WriteTo works once and raises %r the second time\n%s" % (e, src), case)
            return
        if again != data:
            ctx.label("second-write-differs")
            if not validate_bytes(ctx, again, "SECOND WriteTo of the same module object:\n" + src, case, "second-write"):
                return
            ctx.fail("second-write|differs", "two WriteTo calls on one module object give different bytes (%d vs %d)\n%s" % (
                len(data), len(again), src), case)
            return


# -- modules built through the writer API ---------------------------------------------------------

_vt = st.sampled_from(["i32", "f32"])
_fn = st.fixed_dictionaries({
    "params": st.lists(_vt, max_size=3),
    "result": st.one_of(st.none(), _vt),
    "locals": st.lists(_vt, min_size=1, max_size=6),
    "moves": st.one_of(st.lists(st.tuples(st.integers(0, 50), st.integers(0, 50)), max_size=8),
                       st.lists(st.tuples(st.integers(0, 50), st.integers(0, 50)), min_size=24, max_size=90)),
    "name": st.text(min_size=1, max_size=8, alphabet="abcxyz_é0"),
})
_mod = st.lists(_fn, min_size=1, max_size=4, unique_by=lambda f: f["name"])


def api_case(ctx, fns):
    from nsl import WebAssembly as W
    ctx.count()
    VT = {"i32": W.ValueType.i32, "f32": W.ValueType.f32}
    m = W.Module()
    for f in fns:
        ti = m.AddFunctionType(W.FunctionType([VT[t] for t in f["params"]], [VT[f["result"]]] if f["result"] else []))
        fi = m.AddFunction(ti)
        m.AddExport(W.Export(fi, f["name"]))
        code = W.Code()
        slots = list(f["params"])
        for t in f["locals"]:
            idx = len(f["params"]) + code.AddLocal(W.Local(VT[t]))
            if idx != len(slots):
                ctx.fail("api|local-index", "AddLocal returned index %d for the %d-th slot" % (idx, len(slots)), fns)
                return
            slots.append(t)
        for a, b in f["moves"]:
            a %= len(slots)
            same = [k for k, t in enumerate(slots) if t == slots[a]]
            b = same[b % len(same)]
            code.AddInstruction(W.Instruction(W.opcodes["local.get"], (a,)))
            if slots[a] == "i32" and (a + b) % 3 == 0:
                code.AddInstruction(W.Instruction(W.opcodes["local.get"], (b,)))
                code.AddInstruction(W.Instruction(W.opcodes["i32.add"]))
            elif slots[a] == "f32" and (a + b) % 3 == 0:
                code.AddInstruction(W.Instruction(W.opcodes["local.get"], (b,)))
                code.AddInstruction(W.Instruction(W.opcodes["f32.mul"]))
            code.AddInstruction(W.Instruction(W.opcodes["local.set"], (b,)))
        if f["result"]:
            cands = [k for k, t in enumerate(slots) if t == f["result"]]
            if cands:
                code.AddInstruction(W.Instruction(W.opcodes["local.get"], (cands[-1],)))
            elif f["result"] == "i32":
                code.AddInstruction(W.Instruction(W.opcodes["i32.const"], (7,)))
            else:
                code.AddInstruction(W.Instruction(W.opcodes["unreachable"]))
        code.AddInstruction(W.Instruction(W.opcodes["return"]))
        m.AddCode(code)
    m.AddTable(W.Table(0))
    buf = io.BytesIO()
    m.WriteTo(buf)
    data = buf.getvalue()
    ctx.label("emitted:api")
    if ctx.want_sample():
        ctx.sample({"api_module": fns, "bytes": data.hex()[:160]})
    validate_bytes(ctx, data, repr(fns), fns, "api")


def reuse_case(ctx, cases):
    """several programs (distinct function names) compiled one after the other by ONE Compiler object"""
    import io
    import re
    from nsl.Compiler import Compiler
    with adapter.quiet():
        comp = Compiler()
    for k, case in enumerate(cases):
        src = re.sub(r"\bw([0-9]+)\b", lambda m: "u%d_%s" % (k, m.group(1)), case.source())
        ctx.count()
        try:
            with adapter.quiet():
                res = comp.Compile(src, {"wasm": True})
                buf = io.BytesIO()
                res.WasmModule.WriteTo(buf)
        except BaseException as e:
            if isinstance(e, (KeyboardInterrupt,)):
                raise
            ctx.discard("refused-on-reused-compiler")
            continue
        ctx.label("emitted:reused-compiler-%d" % min(k, 2))
        if not validate_bytes(ctx, buf.getvalue(), "compilation #%d on one Compiler object:\n%s" % (k + 1, src), cases, "reuse"):
            return


def run(R):
    R.hyp("compiler-reuse", st.lists(genwasm.subset_case(n_inputs=0), min_size=2, max_size=3), reuse_case, examples=R.pick(40, 600))
    R.require("emitted:reused-compiler-1")
    R.hyp("subset", genwasm.subset_case(n_inputs=0), program_case, examples=R.pick(150, 3000))
    R.hyp("near-miss", genwasm.nearmiss_case(n_inputs=0), program_case, examples=R.pick(60, 1000))
    R.hyp("all-generators", allgen.any_case(n_inputs=0), program_case, examples=R.pick(60, 1500))
    R.hyp("writer-api", _mod, api_case, examples=R.pick(150, 3000))
    for l in ("emitted:subset", "emitted:api", "mixed-local-types", "void-result", "functions:2", "body>=128-bytes"):
        R.require(l)
