"""C17 - a stored IR module reloads to the same program."""
import json
import os
import pickle
import shutil
import subprocess
import sys
import tempfile

from hypothesis import strategies as st

from .. import adapter, gen
from ..compare import exact
from ..interp import deep_copy

LEVEL = "exploration"
RULE = ("Round trip. Accepted programs (generated scalar-core programs with structs, arrays and globals, plus a pool of "
        "feature programs: uint/int casts, vectors, matrices, calls, overloads, literal loop conditions, loops as first "
        "statement) x both optimisation settings are (1) stored exactly as nslc.py does (pickle.dump of Result.IRModule) "
        "and loaded with FilesystemModuleLoader().Load in the same process, (2) stored by the worker and loaded in a "
        "fresh child process, (3) stored by the real `nslc.py -O<n> -o file` command line in a child process and loaded "
        "both in the worker and in another fresh process; (4) stored under file names with and without the .nslir "
        "suffix next to a decoy <stem>.nslir, after the same path held another module that was already loaded; (5) a "
        "generated library (struct + functions taking it, overload sets) is stored and a program importing it is compiled "
        "against the stored file, stored, linked and run - it must behave like the same code compiled as one module. Oracle: the InstructionPrinter listing, the global table and "
        "the VM results (return value, globals after the call, or the same exception class) on generated inputs must "
        "equal those of the in-memory module. Non-trivial = module with >= 2 functions or >= 3 basic blocks that was "
        "executed on >= 1 input; distinct by (source, optimisation setting).")
ASSUMPTIONS = [
    "the in-memory module of the same compilation is the reference (differential; no semantic model involved)",
    "VM failures are compared by exception class: a reloaded module must fail exactly where the original fails",
    "functions far beyond the generators' sizes are probed by a fixed ladder (30 / 90 / 300 / 600 consecutive ifs, loops, assignments); the pickle recursion limit they hit is a recorded known finding",
]

POOL = [
    ("function g ( uint x ) -> uint { return x ; }\nexport function f ( int a , float b ) -> int { uint u = g ( a ) ; int i = a ; "
     "return u + i + g ( b ) ; }\n", "f", [{"a": -5, "b": -2.5}, {"a": 7, "b": 3.75}]),
    ("export function f ( int a ) -> int { int n = 0 ; while ( 1 ) { n ++ ; if ( n > a ) break ; } do { n = n + 2 ; } while ( 0 ) "
     "if ( 0 ) { n = 99 ; } return n ; }\n", "f", [{"a": 3}, {"a": 0}]),
    ("export function f ( int a ) -> int { while ( a > 0 ) { a = a - 2 ; } return a ; }\n", "f", [{"a": 5}, {"a": -1}]),
    # literal conditions whose value occurs nowhere else in the function
    ("export function f ( int a ) -> int { while ( 7 ) { a = a + a ; if ( a > 40 ) break ; if ( a < -40 ) break ; } if ( 3 ) { a = a - 2 ; } "
     "do { a = a + 5 ; } while ( 0 ) return a ; }\n", "f", [{"a": 4}, {"a": -6}]),
    ("export function f ( float x ) -> float { if ( 2.5 ) { x = x * x ; } for ( ; 9 ; ) { x = x + x ; if ( x > 100.0 ) break ; if ( x < 0.001 ) break ; } "
     "return x ; }\n", "f", [{"x": 1.5}, {"x": 0.25}]),
    ("export function f ( int a ) -> int { do { a = a - 3 ; } while ( a > 0 ) return a ; }\n", "f", [{"a": 7}]),
    ("export function f ( float3 v , float s ) -> float3 { float3 r = v * s ; r . x = r . y + 1.0 ; return r . zyx ; }\n", "f",
     [{"v": [1.0, 2.0, 3.0], "s": 2.0}]),
    ("function g ( int a ) -> int { return a + 1 ; }\nfunction g ( float a ) -> float { return a * 2.0 ; }\n"
     "export function f ( int a , float b ) -> float { return g ( a ) + g ( b ) ; }\n", "f", [{"a": 2, "b": 1.5}]),
    ("struct S { float a ; int b ; }\nS gs ;\nexport function f ( int p ) -> int { S l ; l . b = p ; gs . b = l . b + 1 ; return gs . b ; }\n",
     "f", [{"p": 4}]),
    ("export function f ( float4x4 m , float4x4 n ) -> float4x4 { float4x4 r = m * n ; r [ 1 ] [ 2 ] = 5.0 ; return r + m ; }\n", "f",
     [{"m": [[1.0, 0.0, 0.0, 2.0]] * 4, "n": [[0.5, 1.0, 1.5, 2.0]] * 4}]),
    ("uint gu ;\nexport function f ( uint a , int b ) -> int { gu = a + a ; int c = a + b ; return c ; }\n", "f", [{"a": 3, "b": -9}]),
    # void functions: bare `return ;` on some paths, falling off the end on others
    ("int g ;\nfunction note ( int a ) -> void { if ( a > 2 ) { g = a ; return ; } g = 0 - a ; return ; }\n"
     "export function f ( int a ) -> int { note ( a ) ; return g ; }\n", "f", [{"a": 5}, {"a": 1}]),
    ("float acc ;\nfunction add ( float v ) -> void { if ( v < 0.0 ) { return ; } acc = acc + v * 0.1 ; }\n"
     "export function f ( float a , float b ) -> float { acc = 0.7 ; add ( a ) ; add ( b ) ; return acc + 3.14159 ; }\n", "f",
     [{"a": 1.5, "b": -2.0}, {"a": 0.3, "b": 0.1}]),
    ("float3x3 gm ;\nstruct T { float3x3 m ; float4x4 n ; }\nexport function f ( float3x3 a ) -> float3x3 { gm = a ; return gm * a ; }\n", "f",
     [{"a": [[1.0, 2.0, 0.5], [0.25, 1.5, 3.0], [2.0, 0.1, 0.2]]}]),
    ("int [ 4 ] ga ;\nexport function f ( int i ) -> int { int [ 3 ] t ; t [ 1 ] = i ; ga [ 2 ] = t [ 1 ] * 2 ; return ga [ 2 ] + t [ 0 ] ; }\n",
     "f", [{"i": 6}]),
]


class Item:
    """a source with inputs; show() abbreviates very long sources"""

    def __init__(self, src, entry, inputs, optimize, fname="m.nslir"):
        self.fname = fname   # the file name the module is stored under
        self.src = src
        self.entry = entry
        self.inputs = inputs  # list of (args, globals)
        self.optimize = optimize

    def show(self):
        src = self.src if len(self.src) < 4000 else self.src[:600] + "\n... (%d lines in total) ...\n" % self.src.count("\n") + self.src[-200:]
        return "%s// optimize=%s entry=%s inputs=%r stored-as=%s" % (src, self.optimize, self.entry, self.inputs,
                                                                     getattr(self, "fname", "m.nslir"))


@st.composite
def items(draw):
    opt = draw(st.booleans())
    fname = draw(st.sampled_from(["m.nslir", "m.nslir", "m.nslir", "m.bin", "m", "blur.v2", "prog.o1", "lib.nslir.bak"]))
    if draw(st.integers(0, 99)) < 70:
        c = draw(gen.core_case(n_inputs=2))
        return Item(c.source(), c.entry, c.inputs, opt, fname)
    src, entry, ins = draw(st.sampled_from(POOL))
    return Item(src, entry, [(a, {}) for a in ins], opt, fname)


def observe(module, entry, inputs, budget=200000):
    """listing + behaviour of an IR module"""
    out = {"listing": adapter.listing(module), "globals": [str(k) for k in module.Globals.keys()], "runs": []}
    try:
        program = adapter.link([module])
    except Exception as e:
        out["runs"].append("link:" + type(e).__name__)
        return out
    for args, gl in inputs:
        vm = adapter.new_vm(program)
        for k, v in deep_copy(gl).items():
            vm.SetGlobal(k, v)
        ran = adapter.invoke(vm, entry, deep_copy(args), budget=budget)
        if ran.diverged:
            out["runs"].append("diverged")
        elif not ran.ok:
            out["runs"].append("exc:" + type(ran.exc).__name__)
        else:
            out["runs"].append({"value": ran.value, "globals": {k: vm.GetGlobal(k) for k in gl}})
    return out


def same_obs(a, b):
    if a["listing"] != b["listing"] or a["globals"] != b["globals"] or len(a["runs"]) != len(b["runs"]):
        return False
    for x, y in zip(a["runs"], b["runs"]):
        if isinstance(x, dict) != isinstance(y, dict):
            return False
        if isinstance(x, dict):
            if not (exact(x["value"], y["value"]) and exact(x["globals"], y["globals"])):
                return False
        elif x != y:
            return False
    return True


def obs_diff(a, b):
    if a["listing"] != b["listing"]:
        la, lb = a["listing"].splitlines(), b["listing"].splitlines()
        for i, (p, q) in enumerate(zip(la, lb)):
            if p != q:
                return "listing line %d: %r vs %r" % (i + 1, p, q)
        return "listing length %d vs %d" % (len(la), len(lb))
    if a["globals"] != b["globals"]:
        return "global table %r vs %r" % (a["globals"], b["globals"])
    return "VM behaviour %r vs %r" % (a["runs"], b["runs"])


def _nontrivial(obs):
    return (obs["listing"].count("function ") >= 2 or obs["listing"].count("\nbb_") >= 3) and any(
        isinstance(r, dict) for r in obs["runs"])


def inproc_case(ctx, item):
    from nsl import LinearIR
    ctx.count()
    c = adapter.compile_src(item.src, optimize=item.optimize)
    if not c.ok:
        ctx.discard("not-accepted:" + c.stage)
        return
    ref = observe(c.ir, item.entry, item.inputs)
    if _nontrivial(ref):
        ctx.nontrivial((item.src, item.optimize))
    ctx.label("optimize=%s" % item.optimize)
    d = tempfile.mkdtemp(prefix="c17_")
    fname = getattr(item, "fname", "m.nslir")
    ctx.label("stored-as:" + ("*.nslir" if fname.endswith(".nslir") else "other-name"))
    m3 = None
    try:
        path = os.path.join(d, fname)
        if not fname.endswith(".nslir"):
            # another module lives next to it under <stem>.nslir: loading the exact name must not pick it up
            import pathlib
            decoy = adapter.compile_src("export function decoy ( int z ) -> int { return z ; }\n")
            with open(pathlib.Path(path).with_suffix(".nslir"), "wb") as fh:
                pickle.dump(decoy.ir, fh)
        # history at one path: the module compiled at the OTHER optimisation setting is stored and loaded first,
        # then the file is rewritten with the module under test
        other = adapter.compile_src(item.src, optimize=not item.optimize)
        if other.ok:
            try:
                with open(path, "wb") as fh:
                    pickle.dump(other.ir, fh)
                with adapter.quiet():
                    LinearIR.FilesystemModuleLoader().Load(path)
                ctx.label("file-rewritten-before-load")
            except Exception:
                pass   # judged below on the module under test
        try:
            with open(path, "wb") as fh:
                pickle.dump(c.ir, fh)
        except Exception as e:
            nblocks = sum(len(f.BasicBlocks) for f in c.ir.Functions.values())
            ctx.fail("store|" + type(e).__name__, "module (%d basic blocks) cannot be stored: %r\n%s" % (nblocks, e, item.show()), item)
            return
        try:
            with adapter.quiet():
                m2 = LinearIR.FilesystemModuleLoader().Load(path)
        except Exception as e:
            ctx.fail("load|" + type(e).__name__, "stored module cannot be loaded: %r\n%s" % (e, item.show()), item)
            return
        # load by module name without suffix as well (the loader appends .nslir)
        if fname == "m.nslir":
            try:
                with adapter.quiet():
                    m3 = LinearIR.FilesystemModuleLoader().Load(os.path.join(d, "m"))
            except Exception as e:
                ctx.fail("load-by-name|" + type(e).__name__, "Load('m') did not find m.nslir: %r" % (e,), item)
                return
    finally:
        shutil.rmtree(d, ignore_errors=True)
    for tag, m in (("same-process", m2), ("by-name", m3)):
        if m is None:
            continue
        try:
            got = observe(m, item.entry, item.inputs)
        except Exception as e:
            ctx.fail("reloaded-unusable|" + type(e).__name__, "reloaded module (%s) cannot be listed/run: %r\n%s" % (tag, e, item.show()), item)
            return
        if not same_obs(ref, got):
            ctx.fail("differs|" + ("listing" if ref["listing"] != got["listing"] else "behaviour"),
                     "reloaded module (%s) differs: %s\n%s" % (tag, obs_diff(ref, got), item.show()), item)
            return
    if ctx.want_sample() and _nontrivial(ref):
        ctx.sample({"source": item.src, "optimize": item.optimize, "runs": repr(ref["runs"])[:300]})


# -- fresh process ---------------------------------------------------------------------------------

CHILD = r"""
import sys, json, pickle
sys.path.insert(0, %(verif)r)
from vf import adapter
from vf.checks import c17
from nsl import LinearIR
jobs = pickle.load(open(sys.argv[1], "rb"))
out = []
for path, entry, inputs in jobs:
    try:
        with adapter.quiet():
            m = LinearIR.FilesystemModuleLoader().Load(path)
        out.append(c17.observe(m, entry, inputs))
    except Exception as e:
        out.append({"error": "%%s: %%s" %% (type(e).__name__, e)})
pickle.dump(out, open(sys.argv[2], "wb"))
"""


def load_in_child(jobs, workdir):
    here = os.path.dirname(os.path.dirname(os.path.dirname(os.path.abspath(__file__))))
    jf = os.path.join(workdir, "jobs.pkl")
    of = os.path.join(workdir, "out.pkl")
    pickle.dump(jobs, open(jf, "wb"))
    p = subprocess.run([sys.executable, "-c", CHILD % {"verif": here}, jf, of], capture_output=True, text=True,
                       cwd=workdir, timeout=1800, env=dict(os.environ, PYTHONHASHSEED="1"))
    if p.returncode != 0:
        raise RuntimeError("loader child failed: " + p.stderr[-1500:])
    return pickle.load(open(of, "rb"))


def fresh_worker_factory(R, n_cases, n_cli):
    def worker(k, ctx):
        from hypothesis import given, seed, settings, HealthCheck, Phase
        from ..runner import derive_seed
        cases = []

        @seed(derive_seed(R.seed, "C17", "fresh", k))
        @settings(max_examples=n_cases, database=None, deadline=None, phases=[Phase.generate],
                  suppress_health_check=list(HealthCheck))
        @given(items())
        def collect(it):
            cases.append(it)

        collect()
        if k % 4 == 0:
            # a module whose stored form is large (a few hundred statements), written by the real command line tool
            big = "export function f ( int a ) -> int {\n%s return a ;\n}\n" % "".join("a = a + %d ;\n" % (i % 7) for i in range(260))
            cases.insert(0, Item(big, "f", [({"a": 1}, {})], bool(k % 8)))
        for i, (src, entry, ins) in enumerate(POOL):
            if i % 16 == k % 16 or n_cases > 100:
                cases.append(Item(src, entry, [(a, {}) for a in ins], bool((i + k) % 2)))
        work = tempfile.mkdtemp(prefix="c17w_")
        try:
            jobs, refs, kept = [], [], []
            for i, it in enumerate(cases):
                c = adapter.compile_src(it.src, optimize=it.optimize)
                if not c.ok:
                    ctx.discard("not-accepted:" + c.stage)
                    continue
                ref = observe(c.ir, it.entry, it.inputs)
                path = os.path.join(work, "w%d.nslir" % i)
                via_cli = len([1 for j in jobs if j[0].startswith(os.path.join(work, "cli"))]) < n_cli
                if via_cli:
                    # the real front end: nslc.py -O<n> -o <file> <source>
                    sp = os.path.join(work, "cli%d.nsl" % i)
                    path = os.path.join(work, "cli%d.nslir" % i)
                    open(sp, "w").write(it.src)
                    # the same source was compiled to the same output path before, at the other optimisation level
                    subprocess.run([sys.executable, os.path.join(adapter.REPO, "nslc.py"), "-O", "0" if it.optimize else "1",
                                    "-o", path, sp], capture_output=True, text=True, cwd=work,
                                   env=dict(os.environ, PYTHONPATH=adapter.REPO), timeout=300)
                    ctx.label("nslc-output-path-rewritten")
                    p = subprocess.run([sys.executable, os.path.join(adapter.REPO, "nslc.py"), "-O", "1" if it.optimize else "0",
                                        "-o", path, sp], capture_output=True, text=True, cwd=work,
                                       env=dict(os.environ, PYTHONPATH=adapter.REPO), timeout=300)
                    if p.returncode != 0 or not os.path.exists(path) or os.path.getsize(path) == 0:
                        ctx.fail("cli|nslc-failed", "nslc.py failed (exit %d) on a program Compile accepts:\n%s\n%s" % (
                            p.returncode, (p.stdout + p.stderr)[-600:], it.show()), it)
                        return
                    ctx.label("stored-by-nslc")
                    # also load the CLI-written file in this (the worker) process
                    from nsl import LinearIR
                    try:
                        with adapter.quiet():
                            got = observe(LinearIR.FilesystemModuleLoader().Load(path), it.entry, it.inputs)
                    except Exception as e:
                        ctx.fail("cli|load|" + type(e).__name__, "file written by nslc.py cannot be loaded: %r\n%s" % (e, it.show()), it)
                        return
                    if not same_obs(ref, got):
                        ctx.fail("cli|differs", "module stored by nslc.py differs from the in-memory compile: %s\n%s" % (
                            obs_diff(ref, got), it.show()), it)
                        return
                else:
                    with open(path, "wb") as fh:
                        pickle.dump(c.ir, fh)
                jobs.append((path, it.entry, it.inputs))
                refs.append(ref)
                kept.append(it)
            results = load_in_child(jobs, work)
            for it, ref, got in zip(kept, refs, results):
                ctx.count()
                if _nontrivial(ref):
                    ctx.nontrivial((it.src, it.optimize, "fresh"))
                if "error" in got:
                    ctx.fail("fresh-process|load|" + got["error"].split(":")[0],
                             "module stored here cannot be loaded/listed/run in another process: %s\n%s" % (got["error"], it.show()), it)
                    return
                if not same_obs(ref, got):
                    ctx.fail("fresh-process|differs|" + ("listing" if ref["listing"] != got["listing"] else "behaviour"),
                             "module loaded in a fresh process differs: %s\n%s" % (obs_diff(ref, got), it.show()), it)
                    return
            ctx.label("loaded-in-fresh-process", len(kept))
            if ctx.want_sample() and kept:
                ctx.sample({"modules_round_tripped_through_a_fresh_process": len(kept), "first_source": kept[0].src})
        finally:
            shutil.rmtree(work, ignore_errors=True)
    return worker


# -- a stored library as seen by a program importing it (the metadata travels in the file) ------------------

class LibCase:
    def __init__(self, lib, body, entry, inputs, libname):
        self.lib, self.body, self.entry, self.inputs, self.libname = lib, body, entry, inputs, libname

    def show(self):
        return "// ---- %s.nslir (stored) ----\n%s// ---- importer ----\nimport \"%s\" ;\n%s// inputs=%r" % (
            self.libname, self.lib, self.libname, self.body, self.inputs)


@st.composite
def lib_cases(draw):
    ftypes = [draw(st.sampled_from(["int", "float"])) for _ in range(draw(st.integers(2, 3)))]
    fields = ["f%d" % i for i in range(len(ftypes))]
    lib = "struct S { %s }\n" % " ".join("%s %s ;" % (t, n) for t, n in zip(ftypes, fields))
    nfun = draw(st.integers(1, 3))
    calls = []
    for k in range(nfun):
        extra = draw(st.sampled_from([None, "int", "float"]))
        expr = " ".join("s . %s %s" % (n, draw(st.sampled_from(["+", "-", "*"]))) for n in fields) + " 1"
        if extra:
            expr = "( %s ) + k" % expr if False else expr + " + k"
        name = draw(st.sampled_from(["lf%d" % k, "lf"]))   # sometimes an overload set
        params = "S s" + (" , %s k" % extra if extra else "")
        sig = (name, extra)
        if sig in [c[:2] for c in calls]:
            name = "lf%d" % k
        lib += "function %s ( %s ) -> float { return %s ; }\n" % (name, params, expr)
        calls.append((name, extra))
    if draw(st.booleans()):
        lib += "function lg ( float v ) -> float { return v / 2.0 ; }\n"
        wrap = "lg ( %s )"
    else:
        wrap = "%s"
    # a struct-typed global of the library's type in the importer, or a local
    use_global = draw(st.booleans())
    body = ("S gs ;\n" if use_global else "")
    body += "export function main ( int a , float b ) -> float {\n"
    var = "gs" if use_global else "l"
    if not use_global:
        body += "  S l ;\n"
    for t, n in zip(ftypes, fields):
        body += "  %s . %s = %s ;\n" % (var, n, "a" if t == "int" else "b")
    terms = []
    for name, extra in calls:
        arg = "" if extra is None else (" , a" if extra == "int" else " , b")
        terms.append(wrap % ("%s ( %s%s )" % (name, var, arg)))
    body += "  return %s ;\n}\n" % " + ".join(terms)
    inputs = [{"a": draw(st.integers(-9, 9)), "b": draw(st.integers(-16, 16)) / 4.0} for _ in range(2)]
    libname = draw(st.sampled_from(["geometry", "lib", "m0"]))
    return LibCase(lib, body, "main", inputs, libname)


def lib_case(ctx, case):
    from nsl import LinearIR
    ctx.count()
    single = adapter.compile_src(case.lib + case.body)
    if not single.ok:
        ctx.discard("single-module-version-not-accepted:" + single.stage)
        return
    ins = [(a, {}) for a in case.inputs]
    ref = observe(single.ir, case.entry, ins)["runs"]
    work = tempfile.mkdtemp(prefix="c17l_")
    old = os.getcwd()
    os.chdir(work)
    try:
        lib = adapter.compile_src(case.lib)
        if not lib.ok:
            ctx.discard("library-not-accepted:" + lib.stage)
            return
        with open(case.libname + ".nslir", "wb") as fh:
            pickle.dump(lib.ir, fh)
        imp = adapter.compile_src('import "%s" ;\n%s' % (case.libname, case.body))
        if not imp.ok:
            ctx.fail("importer-of-stored-library-rejected|" + (adapter.exc_sig(imp.exc) if imp.exc is not None else imp.kind),
                     "a program importing the STORED library is rejected although the same code compiles as one module: %s\n%s" % (
                         imp.why(), case.show()), case)
            return
        with open("main.nslir", "wb") as fh:
            pickle.dump(imp.ir, fh)
        try:
            with adapter.quiet():
                linker = LinearIR.Linker(loader=LinearIR.FilesystemModuleLoader())
                linker.AddModule(LinearIR.FilesystemModuleLoader().Load("main.nslir"))
                program = linker.Link()
        except Exception as e:
            ctx.fail("stored-importer-does-not-link|" + adapter.exc_sig(e), "%r\n%s" % (e, case.show()), case)
            return
        got = []
        for args, _ in ins:
            ran = adapter.invoke(adapter.new_vm(program), case.entry, dict(args), budget=100000)
            got.append({"value": ran.value, "globals": {}} if ran.ok else ("diverged" if ran.diverged else "exc:" + type(ran.exc).__name__))
        ctx.label("importer-of-stored-library-ran")
        ctx.nontrivial(case.show())
        for x, y in zip(ref, got):
            okk = (isinstance(x, dict) and isinstance(y, dict) and exact(x["value"], y["value"])) or (not isinstance(x, dict) and x == y)
            if not okk:
                ctx.fail("stored-library|behaviour", "program built from stored modules gives %r, the same code as one module %r\n%s" % (
                    got, ref, case.show()), case)
                return
    finally:
        os.chdir(old)
        shutil.rmtree(work, ignore_errors=True)


def large_case(ctx, spec):
    """functions far larger than the generators produce: n consecutive statements of one kind"""
    kind, n = spec
    if kind == "if":
        body = "".join("if ( a > %d ) { a = a + 1 ; }\n" % i for i in range(n))
    elif kind == "loop":
        body = "".join("for ( int i%d = 0 ; i%d < 2 ; ++ i%d ) { a = a + %d ; }\n" % (i, i, i, i % 5) for i in range(n))
    else:
        body = "".join("a = a + %d ;\n" % (i % 7) for i in range(n))
    src = "export function f ( int a ) -> int {\n%s return a ;\n}\n" % body
    ctx.label("large:%s" % kind)
    inproc_case(ctx, Item(src, "f", [({"a": 1}, {}), ({"a": -3}, {})], n % 2 == 0))


def run(R):
    R.enum("large-functions", [(k, n) for k in ("if", "loop", "straight") for n in (30, 90, 300, 600)], large_case,
           exhaustive=False)
    R.hyp("stored-library", lib_cases(), lib_case, examples=R.pick(40, 800))
    R.require("importer-of-stored-library-ran")
    R.hyp("roundtrip-inproc", items(), inproc_case, examples=R.pick(120, 2500))
    R.custom("fresh-process", fresh_worker_factory(R, R.pick(40, 600), R.pick(3, 40)), nworkers=16)
    for l in ("optimize=True", "optimize=False", "stored-by-nslc", "loaded-in-fresh-process"):
        R.require(l)
