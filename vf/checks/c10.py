"""C10 - overload resolution picks the unique best viable candidate."""
import itertools

from hypothesis import strategies as st

from .. import adapter
from .. import model as M

LEVEL = "exploration"
RULE = ("(a) exhaustive at the interface: nsl.types.Scope.RegisterFunction / FindFunction for every set of 1-3 distinct "
        "signatures with 0-2 parameters over {int, float, uint, int2, float2, float3} (43 signatures; quick: all "
        "singletons and pairs and every 4th triple, thorough: all 13 287 sets), in EVERY declaration order, against "
        "every argument type list of length 0-2 (43 lists). (b) end to end: the same over {int, float, int2, float2} "
        "as compiled programs whose overloads return distinct constants (quick: Hypothesis sample biased to 'one "
        "argument incompatible, another convertible'; thorough: all 1 561 sets x orders x 21 argument lists); the "
        "overload is read from the call instruction and, when no vector conversion is involved, from the value the VM "
        "returns. Oracle: viable iff arity matches and every argument is convertible (scalar<->scalar, vector<->vector "
        "of equal size, nothing else); score = number of converted arguments; chosen iff the minimum is unique, "
        "otherwise rejected; identical for every permutation. Non-trivial = >= 2 candidates of which >= 1 is "
        "non-viable or needs a conversion; distinct by (signature set, order, argument list).")
ASSUMPTIONS = [
    "the model of the statement: convertible = both scalars, or both vectors of equal size; arity must match exactly "
    "(no optional parameters are declared)",
    "interface candidates are built like the front end builds them (ast.Argument + types.Function.Resolve)",
    "end-to-end runs skip VM execution when the chosen overload needs a vector conversion (the VM cast of vectors is "
    "a C05 matter); the static call target is still compared",
]

U_IFACE = [M.INT, M.FLOAT, M.UINT, M.vec("int", 2), M.vec("float", 2), M.vec("float", 3)]
U_E2E = [M.INT, M.FLOAT, M.vec("int", 2), M.vec("float", 2)]


def signatures(universe, maxlen=2):
    out = [()]
    for n in range(1, maxlen + 1):
        out += list(itertools.product(universe, repeat=n))
    return out


def convertible(a, p):
    if a[0] == "s" and p[0] == "s":
        return True
    if a[0] == "v" and p[0] == "v":
        return a[2] == p[2]
    return False


def resolve(sigs, args):
    """-> index into sigs of the chosen overload, or None (rejected)"""
    scored = []
    for i, s in enumerate(sigs):
        if len(s) != len(args):
            continue
        if not all(convertible(a, p) for a, p in zip(args, s)):
            continue
        scored.append((sum(1 for a, p in zip(args, s) if a != p), i))
    if not scored:
        return None
    scored.sort()
    if len(scored) > 1 and scored[0][0] == scored[1][0]:
        return None
    return scored[0][1]


def classify(ctx, sigs, args):
    viable = [s for s in sigs if len(s) == len(args) and all(convertible(a, p) for a, p in zip(args, s))]
    nonviable = len(sigs) - len(viable)
    needs_conv = any(any(a != p for a, p in zip(args, s)) for s in viable)
    mixed = any(len(s) == len(args) and any(convertible(a, p) and a != p for a, p in zip(args, s))
                and any(not convertible(a, p) for a, p in zip(args, s)) for s in sigs)
    if mixed:
        ctx.label("one-arg-incompatible-another-convertible")
    if len(viable) >= 2:
        ctx.label("several-viable")
    return len(sigs) >= 2 and (nonviable >= 1 or needs_conv)


# -- interface ----------------------------------------------------------------------

def _nsl_type(t):
    from .c09 import to_nsl
    return to_nsl(t)


def _make_function(name, sig, tag):
    from nsl import ast, types
    argnodes = [ast.Argument(_nsl_type(t), "p%d" % i) for i, t in enumerate(sig)]
    f = types.Function(name, types.Integer(), argnodes)
    f._vf_tag = tag
    return f


def iface_case(ctx, sigset):
    """one item = one set of signatures; all orders x all argument lists inside"""
    from nsl import types
    arglists = signatures(U_IFACE)
    for order in itertools.permutations(range(len(sigset))):
        sigs = [sigset[i] for i in order]
        scope = types.Scope()
        root = types.Scope()
        funcs = []
        for k, s in enumerate(sigs):
            f = _make_function("p", s, order[k])
            f.Resolve(root)
            scope.RegisterFunction("p", f)
            funcs.append(f)
        inner = types.Scope(scope)  # lookups walk to enclosing scopes
        for args in arglists:
            ctx.count()
            want = resolve(sigs, args)
            if classify(ctx, sigs, args):
                ctx.nontrivial((sigset, order, args))
            try:
                with adapter.quiet():
                    got = inner.FindFunction("p", [_nsl_type(a) for a in args])
                gi = funcs.index(got)
                gdesc = "chose p(%s)" % ", ".join(M.tname(t) for t in sigs[gi])
            except Exception as e:
                gi = None
                gdesc = "rejected (%s)" % type(e).__name__
            if gi != want:
                wdesc = "rejected" if want is None else "p(%s)" % ", ".join(M.tname(t) for t in sigs[want])
                kind = ("accepts-nonviable" if want is None and gi is not None and resolve([sigs[gi]], args) is None else
                        "accepts-ambiguous" if want is None and gi is not None else
                        "rejects-resolvable" if gi is None else "wrong-overload")
                ctx.fail("iface|" + kind,
                         "declared (in this order): %s; call p(%s): %s, statement gives %s" % (
                             "; ".join("p(%s)" % ", ".join(M.tname(t) for t in s) for s in sigs),
                             ", ".join(M.tname(a) for a in args), gdesc, wdesc), (sigset,))
                return
            if ctx.want_sample() and len(sigs) == 3 and want is not None and len(args) == 2:
                ctx.sample({"declared": ["p(%s)" % ", ".join(M.tname(t) for t in s) for s in sigs],
                            "call": "p(%s)" % ", ".join(M.tname(a) for a in args), "resolved": gdesc})
    # unknown name
    ctx.count()
    try:
        with adapter.quiet():
            inner.FindFunction("q", [])
        ctx.fail("iface|unknown-name-accepted", "FindFunction('q') succeeded although only p is declared", (sigset,))
    except Exception:
        pass


# -- end to end -----------------------------------------------------------------------

ARGNAME = {M.INT: "a", M.FLOAT: "b", M.vec("int", 2): "c", M.vec("float", 2): "d"}
ARGVAL = {"a": 3, "b": 2.5, "c": [1, 2], "d": [0.5, 1.5]}


def _flags(x):
    """case[2] is either `caller_first` or (caller_first, index of the one overload that carries `export`)"""
    if isinstance(x, tuple):
        return bool(x[0]), x[1]
    return bool(x), None


def e2e_source(sigs, args, caller_first=False):
    caller_first, exported = _flags(caller_first)
    decls = []
    for k, s in enumerate(sigs):
        decls.append("%sfunction p ( %s ) -> int { return %d ; }" % ("export " if k == exported else "",
            " , ".join("%s q%d" % (M.tname(t), i) for i, t in enumerate(s)), k + 1))
    caller = ("export function f ( int a , float b , int2 c , float2 d ) -> int { return p ( %s ) ; }" %
              " , ".join(ARGNAME[a] for a in args))
    parts = [caller] + decls if caller_first else decls + [caller]
    return "\n".join(parts) + "\n"


def e2e_split_case(ctx, case):
    """the overload set is split: the first `k` overloads live in an imported, separately compiled module"""
    import os
    import pickle
    import shutil
    import tempfile
    sigs, args, k = case
    work = tempfile.mkdtemp(prefix="c10_")
    old = os.getcwd()
    os.chdir(work)
    try:
        whole = e2e_source(sigs, args).split("\n")
        lib = adapter.compile_src("\n".join(whole[:k]) + "\n")
        if not lib.ok:
            ctx.discard("library-part-not-accepted")
            return
        with open("ovl.nslir", "wb") as fh:
            pickle.dump(lib.ir, fh)
        src = 'import "ovl" ;\n' + "\n".join(whole[k:])
        ctx.label("e2e-overload-set-split-over-modules")
        e2e_case(ctx, (sigs, args, False), src=src, case_obj=case)
    finally:
        os.chdir(old)
        shutil.rmtree(work, ignore_errors=True)


def e2e_case(ctx, case, src=None, linked_with=(), case_obj=None):
    sigs, args, caller_first = case
    sigs = [tuple(s) for s in sigs]
    args = tuple(args)
    ctx.count()
    want = resolve(sigs, args)
    if classify(ctx, sigs, args):
        ctx.nontrivial((tuple(sigs), args, caller_first, src is not None))
    if src is None:
        src = e2e_source(sigs, args, caller_first)
    if case_obj is not None:
        case = case_obj
    c = adapter.compile_src(src)
    if ctx.want_sample() and len(sigs) >= 2:
        ctx.sample({"source": src, "expected": "rejected" if want is None else "overload #%d" % (want + 1)})
    ctx.label("e2e-expected-" + ("reject" if want is None else "accept"))
    if want is None:
        if c.ok or c.stage != "front":
            ctx.fail("e2e|accepts-unresolvable", "no unique best viable overload, yet not rejected by the front end (%s):\n%s" % (
                c.why(), src), case)
        return
    if not c.ok:
        if c.stage == "front":
            ctx.fail("e2e|rejects-resolvable", "call resolves to overload #%d but the program is rejected: %s\n%s" % (
                want + 1, c.why(), src), case)
        else:
            ctx.discard("backend-failure-after-resolution")
        return
    fn = c.ir.Functions["f"]
    call = [i for i in fn.Instructions if type(i).__name__ == "CallInstruction"]
    want_name = "@p->int`%s" % ",".join(M.tname(t) for t in sigs[want])
    if _flags(caller_first)[1] == want:
        want_name = "p"   # the exported overload keeps the plain name
        ctx.label("e2e-call-to-the-exported-overload")
    if not call or call[-1].Function != want_name:
        ctx.fail("e2e|wrong-overload", "call lowered to %s, statement gives %s\n%s" % (
            call[-1].Function if call else None, want_name, src), case)
        return
    if any(a != p and a[0] == "v" for a, p in zip(args, sigs[want])):
        ctx.label("e2e-static-only(vector conversion)")
        return
    if src is not None and len(set(sigs)) != len(sigs):
        # the same signature defined on both sides of the split: linking the two modules is a duplicate definition
        ctx.label("e2e-static-only(duplicate definition across modules)")
        return
    program = adapter.link(list(linked_with) + [c.ir])
    vm = adapter.new_vm(program)
    ran = adapter.invoke(vm, "f", {k: (list(v) if isinstance(v, list) else v) for k, v in ARGVAL.items()}, budget=10000)
    if not ran.ok:
        ctx.fail("e2e|vm-failure|" + (adapter.exc_sig(ran.exc) if ran.exc else "diverged"),
                 "VM failed on\n%s: %r" % (src, ran.exc), case)
        return
    if ran.value != want + 1:
        ctx.fail("e2e|wrong-overload-ran", "VM returned %r, overload #%d should run\n%s" % (ran.value, want + 1, src), case)


@st.composite
def e2e_strategy(draw):
    ty = st.sampled_from(U_E2E)
    nargs = draw(st.sampled_from([0, 1, 1, 2, 2, 3]))
    args = tuple(draw(ty) for _ in range(nargs))
    n = draw(st.integers(1, 3))
    sigs = []
    for _ in range(n):
        mode = draw(st.integers(0, 9))
        if mode < 6 and nargs > 0:
            # derive from the argument list: keep / convert / break one position each
            s = []
            for a in args:
                m = draw(st.integers(0, 5))
                if m < 2:
                    s.append(a)
                elif m < 4:
                    s.append((a[0], "float" if a[1] == "int" else "int") + tuple(a[2:]))
                else:
                    s.append(draw(ty))
            s = tuple(s)
        else:
            s = tuple(draw(ty) for _ in range(draw(st.integers(0, 3))))
        if s not in sigs or (len(sigs) < 3 and draw(st.integers(0, 11)) == 0):
            sigs.append(s)   # rarely: two overloads with identical parameter types
    exported = draw(st.sampled_from([None, None, 0, len(sigs) - 1]))
    return (tuple(sigs), args, (draw(st.booleans()), exported))


def run(R):
    def iface_items():
        sigs = signatures(U_IFACE)
        items = [(s,) for s in sigs] + list(itertools.combinations(sigs, 2))
        triples = list(itertools.combinations(sigs, 3))
        items += triples[::4] if R.quick else triples
        return items

    R.enum("interface", iface_items, iface_case, exhaustive=not R.quick, chunks=64)
    if R.quick:
        R.hyp("end-to-end", e2e_strategy(), e2e_case, examples=150)
    else:
        def e2e_items():
            sigs = signatures(U_E2E)
            out = []
            k = 0
            for n in (1, 2, 3):
                for combo in itertools.combinations(sigs, n):
                    for order in itertools.permutations(combo):
                        for args in sigs:
                            k += 1
                            out.append((order, args, k % 2 == 0))
            return out
        R.enum("end-to-end", e2e_items, e2e_case, chunks=128)
    R.hyp("end-to-end-split", e2e_strategy().filter(lambda c: len(c[0]) >= 2).flatmap(
        lambda c: st.integers(1, len(c[0]) - 1).map(lambda k: (c[0], c[1], k))), e2e_split_case, examples=R.pick(60, 1500))
    R.require("e2e-overload-set-split-over-modules")
    R.require("one-arg-incompatible-another-convertible")
    R.require("several-viable")
    R.require("e2e-expected-accept")
    R.require("e2e-expected-reject")
