"""C12 - no two visible variables share a name; references bind lexically."""
import copy
import itertools

from .. import adapter, gen, scopemodel
from .. import model as M
from ..model import INT, FLOAT
from . import c01

LEVEL = "exploration"
RULE = ("Exhaustive over small block structures: every skeleton of one or two top-level constructs from {block, if, "
        "if/else, for, while, do, unbraced-declaration-if, unbraced-declaration-while}, the first optionally containing "
        "one nested construct (quick: 1 construct + optional nested, and all sibling pairs; thorough: all two-construct "
        "skeletons with nesting), with globals and parameters; x every statement position of every block (and every "
        "for-header) x one additional declaration OR one additional use x a name drawn from ALL names declared anywhere "
        "in the program (visible here, declared in a closed sibling / inner scope, declared later) plus a fresh one. "
        "Oracle (vf/scopemodel.py, from the statement): a declaration is rejected iff its name is visible at that "
        "point; a use is rejected iff the name is not visible there; everything else is accepted. Generated: "
        "scalar-core programs that deliberately reuse names in sibling scopes with different types / values "
        "(gen.core_case(reuse=85)) and call graphs whose functions declare locals of the same spelling "
        "(genx.calls_case) run on the VM against the reference interpreter, whose variables are per declaration "
        "and per activation. Non-trivial = the chosen name is declared somewhere else in the program (so visibility, not "
        "freshness, decides) / the executed program declares one name at least twice; distinct by source text.")
ASSUMPTIONS = [
    "scopes of the model: globals; parameters; every braced block; every if, for (header + body), while, do statement; "
    "a variable is visible from its declaration to the end of the innermost enclosing scope",
    "a declaration in the then-branch and one of the same name in the else-branch of one if (both unbraced) is never "
    "generated: the statement does not say whether the two branches are sibling scopes in that spelling",
    "rejected = Compile returns None, exits or raises in the front end",
]

CONSTRUCTS = ["block", "if", "ifelse", "for", "while", "do", "if-unbraced", "while-unbraced",
              "block-empty", "for-empty", "while-empty"]


def lit(v):
    return M.Lit(v, INT, str(v))


def use_stmt(name):
    r = M.Var("r", INT)
    return M.ExprStmt(M.Assign(r, "=", M.Bin("+", r, M.Var(name, INT))))


class Namer:
    def __init__(self):
        self.n = 0
        self.names = []

    def __call__(self, prefix="x"):
        self.n += 1
        nm = "%s%d" % (prefix, self.n)
        self.names.append(nm)
        return nm


def build_list(specs, namer):
    out = []
    for (c, inner) in specs:
        cond = M.Bin("<", M.Var("p0", INT), lit(0))
        if c in ("if-unbraced", "while-unbraced"):
            nm = namer("u")
            d = M.Decl(INT, nm, lit(namer.n))
            out.append(M.If(cond, d) if c == "if-unbraced" else M.While(cond, d))
            continue
        if c.endswith("-empty"):
            # a construct whose braces contain nothing: it still opens and closes a scope
            if c == "block-empty":
                out.append(M.Block([]))
            elif c == "while-empty":
                out.append(M.While(cond, M.Block([])))
            else:
                i = namer("i")
                out.append(M.For(M.Decl(INT, i, lit(0)), M.Bin("<", M.Var(i, INT), lit(2)),
                                 M.Affix("++", M.Var(i, INT), True), M.Block([])))
            continue
        nm = namer()
        body = M.Block([M.Decl(INT, nm, lit(namer.n)), use_stmt(nm)] + build_list(inner, namer) + [use_stmt(nm)])
        if c == "block":
            out.append(body)
        elif c == "if":
            out.append(M.If(cond, body))
        elif c == "ifelse":
            e = namer("e")
            out.append(M.If(cond, body, M.Block([M.Decl(INT, e, lit(namer.n)), use_stmt(e)])))
        elif c == "for":
            i = namer("i")
            out.append(M.For(M.Decl(INT, i, lit(0)), M.Bin("<", M.Var(i, INT), lit(2)),
                             M.Affix("++", M.Var(i, INT), True), body))
        elif c == "while":
            out.append(M.While(cond, body))
        elif c == "do":
            out.append(M.Do(body, cond))
        else:
            raise ValueError(c)
    return out


def skeleton(specs):
    namer = Namer()
    top = namer("t")
    stmts = [M.Decl(INT, "r", lit(0)), M.Decl(INT, top, lit(1))] + build_list(specs, namer) + [M.Return(M.Var("r", INT))]
    f = M.Func("f", [(INT, "p0"), (INT, "p1")], INT, M.Block(stmts), True)
    # two parameters of h are written without a name: they declare nothing
    h = M.Func("h", [(INT, "q0"), (INT, "unnamed_1"), (FLOAT, "unnamed_2")], INT,
               M.Block([M.Decl(INT, "hl", lit(3)), M.Return(M.Var("hl", INT))]), False)
    prog = M.Program([], [(INT, "g0"), (INT, "g1")], [h, f])
    names = ["g0", "p0", "r", "q0", "hl"] + namer.names + ["fresh9"]
    return prog, names


def blocks_of(func):
    """all M.Block nodes of the function body in traversal order, and all For nodes"""
    blocks, fors = [], []

    def st(s):
        if isinstance(s, M.Block):
            blocks.append(s)
            for x in s.stmts:
                st(x)
        elif isinstance(s, M.If):
            st(s.then)
            if s.els is not None:
                st(s.els)
        elif isinstance(s, M.For):
            fors.append(s)
            st(s.body)
        elif isinstance(s, (M.While, M.Do)):
            st(s.body)

    st(func.body)
    return blocks, fors


def conds_of(func):
    """all if / while / do nodes of the function body in traversal order (their condition can name a variable)"""
    out = []

    def st(s):
        if isinstance(s, M.Block):
            for x in s.stmts:
                st(x)
        elif isinstance(s, M.If):
            out.append(s)
            st(s.then)
            if s.els is not None:
                st(s.els)
        elif isinstance(s, M.For):
            st(s.body)
        elif isinstance(s, (M.While, M.Do)):
            out.append(s)
            st(s.body)

    st(func.body)
    return out


def variants(specs):
    """-> list of (kind, position descriptor, name)"""
    prog, names = skeleton(specs)
    f = prog.funcs[-1]
    blocks, fors = blocks_of(f)
    out = []
    for bi, b in enumerate(blocks):
        for idx in range(len(b.stmts) + (0 if bi == 0 else 1)):
            if bi == 0 and idx == 0:
                continue  # before `int r`
            for nm in names:
                out.append(("decl", ("block", bi, idx), nm))
                if nm != "r":
                    out.append(("use", ("block", bi, idx), nm))
    for fi in range(len(fors)):
        for nm in names:
            out.append(("decl", ("for-header", fi, 0), nm))
    # the condition of every if / while / do names a variable: visible there or not (e.g. declared by its own body)
    for ci in range(len(conds_of(f))):
        for nm in names:
            if nm != "r":
                out.append(("use", ("condition", ci, 0), nm))
    return out


def apply_variant(specs, kind, pos, name):
    prog, names = skeleton(specs)
    prog = copy.deepcopy(prog)
    f = prog.funcs[-1]
    blocks, fors = blocks_of(f)
    where, k, idx = pos
    if where == "block":
        stmt = M.Decl(INT, name, lit(77)) if kind == "decl" else use_stmt(name)
        blocks[k].stmts.insert(idx, stmt)
    elif where == "condition":
        conds_of(f)[k].cond = M.Bin("<", M.Var(name, INT), lit(0))
    else:
        fr = fors[k]
        old = fr.init.name
        fr.init = M.Decl(INT, name, lit(0))
        fr.cond = M.Bin("<", M.Var(name, INT), lit(2))
        fr.next = M.Affix("++", M.Var(name, INT), True)
        # the body used the old header variable nowhere (uses are of body locals), nothing else to rename
    return prog, names


def structure_case(ctx, case):
    specs, kind, pos, name = case
    prog, names = apply_variant(specs, kind, pos, name)
    src = M.to_source(prog)
    errs = scopemodel.analyse(prog)
    ctx.count()
    if name != "fresh9":
        ctx.nontrivial(src)
    want_reject = bool(errs)
    ctx.label("%s:%s" % (kind, "reject" if want_reject else "accept"))
    ctx.label("pos:" + pos[0])
    for e in errs[:1]:
        ctx.label("model:" + e[0])
    if ctx.want_sample() and want_reject and kind == "use":
        ctx.sample({"source": src, "expected": "rejected: %r" % (errs,)})
    c = adapter.compile_src(src)
    cls = _name_class(name)
    if want_reject:
        if c.ok or c.stage != "front":
            what = "redeclaration of a visible name" if errs[0][0] == "redecl" else "use of a name that is not visible"
            ctx.fail("accepts|%s|%s|%s" % (kind, errs[0][0], cls),
                     "%s (%s %r) must be rejected, got %s:\n%s" % (what, errs[0][0], errs[0][1], c.why(), src), case)
        return
    if not c.ok:
        ctx.fail("rejects|%s|%s|%s" % (kind, cls, c.stage),
                 "legal %s of %r (model: no visible clash / name visible) rejected (%s):\n%s\n%s" % (
                     kind, name, c.why(), src, c.out[-300:]), case)


def _name_class(name):
    if name[0] == "g":
        return "global"
    if name[0] in "pq":
        return "param"
    if name[0] == "i":
        return "loop-header"
    if name == "fresh9":
        return "fresh"
    if name in ("r", "hl") or name[0] == "t":
        return "function-level-local"
    return "block-local"


# -- generated sibling reuse, executed ---------------------------------------------------

def declared_names(func):
    out = []

    def st(s):
        if isinstance(s, M.Decl):
            out.append(s.name)
        elif isinstance(s, M.Block):
            for x in s.stmts:
                st(x)
        elif isinstance(s, M.If):
            st(s.then)
            if s.els is not None:
                st(s.els)
        elif isinstance(s, M.For):
            if s.init is not None:
                out.append(s.init.name)
            st(s.body)
        elif isinstance(s, (M.While, M.Do)):
            st(s.body)

    st(func.body)
    return out


def reuse_case(ctx, case):
    f = case.prog.funcs[-1]
    names = declared_names(f)
    reused = len(names) != len(set(names))
    if reused:
        ctx.label("sibling-reuse")
    errs = scopemodel.analyse(case.prog)
    if errs:
        # the generator only reuses names of *closed* scopes; anything else is our bug
        raise AssertionError("generator produced a program the scope model rejects: %r\n%s" % (errs, case.source()))
    c01.check_case(ctx, case, nontrivial=(lambda tr: reused and tr.get("op", 0) >= 1), exact_floats=True)
    # a name redeclared in a sibling scope is a new variable for the optimiser as well
    c01.check_case(ctx, case, nontrivial=(lambda tr: False), exact_floats=True, optimize=True)


def across_functions_case(ctx, case):
    """several functions declaring locals / parameters of the same spelling: every use binds to the declaration of
    its own function's activation (executed against the reference interpreter)"""
    per_func = [set(declared_names(f)) | {n for _, n in f.params} for f in case.prog.funcs]
    shared = any(per_func[i] & per_func[j] for i in range(len(per_func)) for j in range(i + 1, len(per_func)))
    if shared:
        ctx.label("same-spelling-in-two-functions")
    c01.check_case(ctx, case, nontrivial=(lambda tr: shared and tr.get("call", 0) >= 1))


def run(R):
    from .. import genx
    R.hyp("same-names-across-functions", genx.calls_case(), across_functions_case, examples=R.pick(80, 1500), shrink="ast")
    R.require("same-spelling-in-two-functions")

    def items():
        out = []
        singles = [[(c, [])] for c in CONSTRUCTS] + [[(c, [(d, [])])] for c in CONSTRUCTS[:6] for d in CONSTRUCTS]
        pairs = [[(c, []), (d, [])] for c in CONSTRUCTS for d in CONSTRUCTS]
        specs = singles + pairs
        if not R.quick:
            specs += [[(c, [(d, [])]), (e, [])] for c in CONSTRUCTS[:6] for d in CONSTRUCTS for e in CONSTRUCTS]
            specs += [[(c, [(d, [(e, [])])])] for c in CONSTRUCTS[:6] for d in CONSTRUCTS[:6] for e in CONSTRUCTS]
        for sp in specs:
            vs = variants(sp)
            if R.quick:
                vs = vs[::3]
            for (kind, pos, nm) in vs:
                out.append((sp, kind, pos, nm))
        return out

    R.enum("structures", items, structure_case, exhaustive=not R.quick, chunks=64)
    R.hyp("sibling-reuse-executed", gen.core_case(reuse=85), reuse_case, examples=R.pick(150, 3000), shrink="ast")
    for l in ("decl:reject", "decl:accept", "use:reject", "use:accept", "pos:for-header", "sibling-reuse",
              "model:redecl", "model:undeclared"):
        R.require(l)
