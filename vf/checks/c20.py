"""C20 - reported source positions designate the text they talk about."""
import itertools
import re

from hypothesis import strategies as st

from .. import adapter, exprparse, gen, genx
from .. import model as M
from ..model import INT, FLOAT

LEVEL = "exploration"
RULE = ("(a) SourceMapping: every text of length <= 10 over {x, newline} (2 047 texts) x every offset 0..len, plus "
        "Hypothesis texts over letters/space/tab/newline up to 300 characters x every offset: GetLineFromOffset must be the "
        "number of newlines before the offset and GetLineStartOffset the offset after the preceding newline. (b) "
        "generated scalar-core, vector/matrix and multi-function programs printed under generated token-preserving layouts (leading blank lines, tabs, "
        "several tokens per line, one token per line); the printer records the character range of every identifier, "
        "literal, parameter and declaration. For every PrimaryExpression / LiteralExpression / Argument / "
        "VariableDeclaration the parser produces, str(GetLocation()) read back through our own line table (1-based, end "
        "exclusive) must be exactly a recorded range whose text is the entity's spelling, and the set of located "
        "entities must equal the set of recorded ones. After the UpdateLocations pass every node's range must contain "
        "the ranges of all its children, str() must round-trip to (GetBegin, GetEnd) for single- and multi-line ranges, "
        "and a declaration's range must start at its identifier and be exactly the identifier without initialiser. "
        "(c) programs with one redeclaration (of a parameter, global, outer local or loop-header variable; with and "
        "without initialiser): both positions of the diagnostic text must designate the two declarations. "
        "Non-trivial = entity not on the first line or preceded by a tab / other tokens on its line, or a composite "
        "spanning >= 2 lines; distinct by source text (programs) / (text, offset) (mapping).")
ASSUMPTIONS = [
    "the printed convention is the one Location.__str__ documents: 1-based line, 1-based column, end column exclusive",
    "the redeclaration diagnostic is read at its construction (nsl.Errors.CompileException message text) because "
    "Compiler.Compile itself does not print it; this is a harness-side wrapper, no repository change",
    "layouts vary only whitespace between tokens (vf.model.layout re-tokenises to make sure)",
]


# -- (a) SourceMapping ---------------------------------------------------------------------

def mapping_text(ctx, text):
    from nsl import ast
    sm = ast.SourceMapping(text)
    nlines = text.count("\n") + 1
    for off in range(len(text) + 1):
        ctx.count()
        want_line = text.count("\n", 0, off)
        want_start = text.rfind("\n", 0, off) + 1
        if want_line > 0:
            ctx.nontrivial((text, off))
        try:
            got_line = sm.GetLineFromOffset(off)
            got_start = sm.GetLineStartOffset(got_line)
        except Exception as e:
            ctx.fail("mapping|exception|" + type(e).__name__, "text %r offset %d: %r" % (text, off, e), text)
            return
        if got_line != want_line:
            ctx.fail("mapping|wrong-line", "text %r offset %d: line %d, expected %d (0-based)" % (text, off, got_line, want_line), text)
            return
        if got_start != want_start:
            ctx.fail("mapping|wrong-line-start", "text %r offset %d: line start %d, expected %d" % (text, off, got_start, want_start), text)
            return
    for line in range(nlines):
        want = 0 if line == 0 else [i for i, ch in enumerate(text) if ch == "\n"][line - 1] + 1
        try:
            got = sm.GetLineStartOffset(line)
        except Exception as e:
            ctx.fail("mapping|exception|" + type(e).__name__, "text %r line %d: %r" % (text, line, e), text)
            return
        if got != want:
            ctx.fail("mapping|wrong-line-start", "text %r line %d starts at %d, expected %d" % (text, line, got, want), text)
            return
    if ctx.want_sample() and nlines > 2:
        ctx.sample({"text": text, "line_starts": [sm.GetLineStartOffset(l) for l in range(nlines)]})


def mapping_batch(ctx, batch):
    for t in batch:
        mapping_text(ctx, t)


# -- location strings -------------------------------------------------------------------------

_LOC1 = re.compile(r"^(\d+):(\d+)-(\d+)$")
_LOC2 = re.compile(r"^(\d+):(\d+)-(\d+):(\d+)$")


def line_starts(text):
    return [0] + [i + 1 for i, ch in enumerate(text) if ch == "\n"]


def loc_to_range(s, starts):
    m = _LOC1.match(s)
    if m:
        l, c1, c2 = map(int, m.groups())
        l2 = l
    else:
        m = _LOC2.match(s)
        if not m:
            return None
        l, c1, l2, c2 = map(int, m.groups())
    if not (1 <= l <= len(starts) and 1 <= l2 <= len(starts)) or c1 < 1 or c2 < 1:
        return None
    return (starts[l - 1] + c1 - 1, starts[l2 - 1] + c2 - 1)


# -- layouts -----------------------------------------------------------------------------------

_SEP = st.sampled_from([" ", " ", " ", "\n", "\t", "  ", "\n\n", "\n\t", " \n  ", "\t\t", "\n    "])


@st.composite
def laid_out(draw, toks, style=None):
    n = len(toks)
    style = style if style is not None else draw(st.integers(0, 5))
    if style == 0:
        seps = [draw(st.sampled_from(["", "\n", "\n\n\t", "  "]))] + [" "] * (n - 1) + ["\n"]
    elif style == 1:
        seps = [draw(st.sampled_from(["", "\n"]))] + ["\n"] * (n - 1) + [""]
    elif style == 5:
        # the whole program on ONE line, no line break anywhere (not even a trailing one)
        seps = [draw(st.sampled_from(["", " ", "\t"]))] + [draw(st.sampled_from([" ", " ", "  ", "\t"])) for _ in range(n - 1)] + [""]
    elif style == 4:
        # CRLF text: every line break is \r\n
        seps = [draw(st.sampled_from(["", "\r\n", "\r\n\t"]))] + [draw(st.sampled_from([" ", " ", "\r\n", "\r\n  ", "\t", "\r\n\r\n"]))
                                                                for _ in range(n - 1)] + [draw(st.sampled_from(["", "\r\n"]))]
    else:
        seps = [draw(st.sampled_from(["", "\n", "\t", "\n \n"]))] + [draw(_SEP) for _ in range(n - 1)] + [draw(st.sampled_from(["", "\n"]))]
    r = M.layout(toks, seps)
    assert r is not None, "whitespace-only separators must preserve the token sequence"
    return r


@st.composite
def program_case(draw):
    case = draw(st.one_of(gen.core_case(n_inputs=0), gen.core_case(n_inputs=0), genx.vector_case(n_inputs=0),
                          genx.calls_case(n_inputs=0)))
    pr = M.Printer(draw(st.sampled_from(["full", "min"])))
    pr.program(case.prog)
    text, offsets = draw(laid_out(pr.toks))
    return (text, offsets, pr.toks, pr.marks)


def _collect(root):
    """all nodes reachable through ForEachChild, (node, parent) pairs"""
    out = []

    def visit(n, parent):
        out.append((n, parent))

        def f(c, ctx=None):
            visit(c, n)
        try:
            n.ForEachChild(f)
        except Exception:
            pass

    visit(root, None)
    return out


def _known(node):
    loc = node.GetLocation()
    return None if loc.IsUnknown else loc


def positions_case(ctx, case):
    from nsl import ast
    from nsl.passes import UpdateLocations
    text, offsets, toks, marks = case
    ctx.count()
    starts = line_starts(text)
    recorded = {}
    for kind, name, ti in marks:
        rng = (offsets[ti], offsets[ti] + len(toks[ti]))
        recorded[rng] = (kind, name)
        assert text[rng[0]:rng[1]] == name, "printer bookkeeping"
    try:
        with adapter.quiet():
            module = _parser().Parse(text)
    except SystemExit:
        ctx.fail("positions|syntax-error", "generated program does not parse:\n%s" % text, case)
        return
    nodes = _collect(module)
    nt = False
    seen = {}
    for node, parent in nodes:
        if isinstance(node, ast.PrimaryExpression):
            kind, spelling = "id", node.GetName()
        elif isinstance(node, ast.LiteralExpression):
            kind, spelling = "lit", None
        elif isinstance(node, ast.Argument):
            kind, spelling = "param", node.GetName()
        elif isinstance(node, ast.VariableDeclaration):
            kind, spelling = "decl", node.GetName()
        else:
            continue
        loc = _known(node)
        if loc is None and kind == "param" and spelling is None:
            # a parameter without a name: there is no identifier whose position could be reported
            ctx.label("unnamed-parameter")
            continue
        if loc is None:
            ctx.fail("positions|missing-location|" + kind, "%s %r has no location\n%s" % (kind, spelling, text), case)
            return
        s = str(loc)
        rng = loc_to_range(s, starts)
        what = "%s %r reported at %s" % (kind, spelling if spelling is not None else node.GetValue(), s)
        if rng is None or not (0 <= rng[0] <= rng[1] <= len(text)):
            ctx.fail("positions|unreadable|" + kind, "%s: not a valid range of the text\n%s" % (what, text), case)
            return
        got_text = text[rng[0]:rng[1]]
        if spelling is not None and got_text != spelling:
            ctx.fail("positions|wrong-text|" + kind, "%s designates %r\n%s" % (what, got_text, text), case)
            return
        if spelling is None:
            try:
                ok = exprparse.literal_value(got_text) == node.GetValue() and rng in recorded
            except Exception:
                ok = False
            if not ok:
                ctx.fail("positions|wrong-text|lit", "%s designates %r\n%s" % (what, got_text, text), case)
                return
        if rng not in recorded:
            ctx.fail("positions|wrong-occurrence|" + kind, "%s: no such entity was printed there\n%s" % (what, text), case)
            return
        seen[rng] = seen.get(rng, 0) + 1
        line = text.count("\n", 0, rng[0])
        lead = text[starts[line]:rng[0]]
        if line > 0 or "\t" in lead or lead.strip():
            nt = True
    missing = [r for r, (k, nm) in recorded.items() if r not in seen and k in ("id", "member", "lit", "decl", "param")]
    if missing:
        r = missing[0]
        ctx.fail("positions|entity-without-node|" + recorded[r][0],
                 "%s %r printed at offsets %r has no located AST node\n%s" % (recorded[r][0], recorded[r][1], r, text), case)
        return
    # --- composite ranges after UpdateLocations
    try:
        with adapter.quiet():
            # as the compiler does: compound assignments are rewritten first, then the ranges are computed
            from nsl.passes import RewriteAssignEqualOperations
            RewriteAssignEqualOperations.GetPass().Process(module)
            UpdateLocations.GetPass().Process(module)
    except Exception as e:
        ctx.fail("hull|pass-exception|" + type(e).__name__, "RewriteAssignEqualOperations / UpdateLocations raised %r\n%s" % (e, text), case)
        return
    for node, parent in _collect(module):
        loc = _known(node)
        if loc is None:
            continue
        b, e = loc.GetBegin(), loc.GetEnd()
        s = str(loc)
        rng = loc_to_range(s, starts)
        if rng != (b, e):
            ctx.fail("hull|str-mismatch|" + ("multi-line" if text.count("\n", b, e) else "single-line"),
                     "%s [%d,%d) prints as %s which reads back as %r\n%s" % (type(node).__name__, b, e, s, rng, text), case)
            return
        if text.count("\n", b, e):
            nt = True
            ctx.label("multi-line-range")
        if parent is not None:
            ploc = _known(parent)
            if ploc is None or not (ploc.GetBegin() <= b and e <= ploc.GetEnd()):
                ctx.fail("hull|child-outside-parent|" + type(parent).__name__,
                         "%s %s is not inside its parent %s %s\n%s" % (type(node).__name__, s, type(parent).__name__, ploc, text), case)
                return
        if isinstance(node, ast.VariableDeclaration):
            nm = node.GetName()
            if text[b:b + len(nm)] != nm or recorded.get((b, b + len(nm)), ("",))[0] != "decl":
                ctx.fail("hull|declaration-start", "declaration of %r reported at %s does not start at its identifier\n%s" % (nm, s, text), case)
                return
            if not node.HasInitializerExpression() and e != b + len(nm):
                ctx.fail("hull|declaration-extent", "declaration of %r (no initialiser) reported at %s\n%s" % (nm, s, text), case)
                return
    if nt:
        ctx.nontrivial(text)
    if ctx.want_sample() and nt:
        ctx.sample({"source": text, "entities": len(recorded)})


_PARSER = None


def _parser():
    global _PARSER
    if _PARSER is None:
        from nsl.parser import NslParser
        with adapter.quiet():
            _PARSER = NslParser()
    return _PARSER


# -- (c) redeclaration diagnostic -------------------------------------------------------------

def lit(v):
    return M.Lit(v, INT, str(v))


@st.composite
def redecl_case(draw):
    victim = draw(st.sampled_from(["param", "global", "outer-local", "outer-local-init", "loop-header", "function-local-in-loop"]))
    with_init = draw(st.booleans())
    new_ty = draw(st.sampled_from([INT, FLOAT]))
    depth = draw(st.integers(0, 2))
    name = {"param": "p0", "global": "g0"}.get(victim, "v1")
    newdecl = M.Decl(new_ty, name, (lit(draw(st.integers(0, 99))) if new_ty == INT else M.Lit(2.5, FLOAT, "2.5")) if with_init else None)
    inner = [newdecl]
    for _ in range(depth):
        inner = [M.Block(inner)] if draw(st.booleans()) else [M.If(M.Bin("<", M.Var("p1", INT), lit(3)), M.Block(inner))]
    pre = [M.Decl(INT, "r", lit(0))]
    if victim == "outer-local":
        pre.append(M.Decl(INT, name))
    elif victim == "outer-local-init":
        pre.append(M.Decl(INT, name, M.Bin("+", M.Var("p1", INT), lit(1))))
    if victim in ("loop-header", "function-local-in-loop"):
        hdr = name if victim == "loop-header" else "i9"
        body = inner if victim == "loop-header" else [M.Decl(INT, name, lit(4)), M.Block(inner)]
        stmts = pre + [M.For(M.Decl(INT, hdr, lit(0)), M.Bin("<", M.Var(hdr, INT), lit(2)),
                             M.Affix("++", M.Var(hdr, INT), True), M.Block(body))]
    else:
        stmts = pre + inner
    stmts.append(M.Return(M.Var("r", INT)))
    params = [(INT, "p0"), (INT, "p1")]
    # parameters written without a name, before / between / after the named ones
    for _ in range(draw(st.integers(0, 2)) if draw(st.booleans()) else 0):
        params.insert(draw(st.integers(0, len(params))), (draw(st.sampled_from([INT, FLOAT])), "unnamed_%d" % len(params)))
    f = M.Func("f", params, INT, M.Block(stmts), True)
    prog = M.Program([], [(INT, "g0"), (FLOAT, "g1")], [f])
    pr = M.Printer("full")
    pr.program(prog)
    text, offsets = draw(laid_out(pr.toks))
    return (text, offsets, pr.toks, pr.marks, name, with_init, victim)


def redecl_check(ctx, case):
    from nsl import Errors
    text, offsets, toks, marks, name, with_init, victim = case
    ctx.count()
    ctx.label("redecl:" + victim)
    starts = line_starts(text)
    occ = [(offsets[ti], offsets[ti] + len(nm)) for kind, nm, ti in marks if nm == name and kind in ("decl", "param")]
    assert len(occ) == 2, occ
    first, second = sorted(occ)
    captured = []
    orig = Errors.CompileException.__init__

    def wrapped(self, message, *args):
        orig(self, message, *args)
        if getattr(message, "code", None) == 2401:
            captured.append(self.messageText)

    Errors.CompileException.__init__ = wrapped
    try:
        c = adapter.compile_src(text)
    finally:
        Errors.CompileException.__init__ = orig
    if c.ok:
        ctx.discard("redeclaration-accepted (C12's concern)")
        return
    if not captured:
        ctx.discard("no-diagnostic-constructed")
        return
    msg = captured[0]
    m = re.match(r"^The variable '([^']*)' \(([^)]*)\) is already declared here (.*)$", msg)
    if not m:
        ctx.fail("diagnostic|format", "unexpected diagnostic text %r" % msg, case)
        return
    if m.group(1) != name:
        ctx.fail("diagnostic|wrong-name", "diagnostic %r names %r, the redeclared variable is %r\n%s" % (msg, m.group(1), name, text), case)
        return
    line = text.count("\n", 0, second[0])
    if line > 0 or text[starts[line]:second[0]].strip() or "\t" in text[starts[line]:second[0]]:
        ctx.nontrivial(text)
    for label, s, want in (("new", m.group(2), second), ("existing", m.group(3), first)):
        rng = loc_to_range(s.strip(), starts)
        if rng is None:
            ctx.fail("diagnostic|unreadable-position", "diagnostic %r: %r is not a line:col range\n%s" % (msg, s, text), case)
            return
        if rng[0] != want[0] or rng[1] < want[1]:
            ctx.fail("diagnostic|wrong-position|" + label,
                     "diagnostic %r: the %s declaration of %r is at offsets %r = %r, the message points at %r = %r\n%s" % (
                         msg, label, name, want, text[want[0]:want[1]], rng, text[rng[0]:rng[1]], text), case)
            return
        if rng[1] != want[1]:
            # with an initialiser the range may extend to the end of the initialiser: it must end at a token end
            ends = {offsets[i] + len(toks[i]) for i in range(len(toks))}
            if rng[1] not in ends or ";" in text[rng[0]:rng[1]]:
                ctx.fail("diagnostic|wrong-extent|" + label, "diagnostic %r: range %r = %r\n%s" % (msg, rng, text[rng[0]:rng[1]], text), case)
                return
    if ctx.want_sample():
        ctx.sample({"source": text, "diagnostic": msg})


# -- texts parsed through the expression / statement entry points (a located token may sit at offset 0) ----------

@st.composite
def entry_text(draw):
    n = draw(st.integers(2, 6))
    operands = [draw(st.sampled_from(["alpha", "b", "c2", "7", "0x1F", "2.5", "delta"])) for _ in range(n)]
    ops = [draw(st.sampled_from(["+", "-", "*", "/", "<", "==", "&&", "||", "%"])) for _ in range(n - 1)]
    toks = []
    for k in range(n):
        toks.append(operands[k])
        if k < n - 1:
            toks.append(ops[k])
    kind = draw(st.sampled_from(["expression", "expression", "statement"]))
    if kind == "statement":
        toks = ["x", "="] + toks + [";"]
    seps = [draw(st.sampled_from(["", "", " ", "\n", "\t"]))] + [draw(st.sampled_from([" ", " ", "\n", "  ", "\n\t"])) for _ in range(len(toks) - 1)] + [draw(st.sampled_from(["", "\n"]))]
    r = M.layout(toks, seps)
    assert r is not None
    return (kind, r[0], r[1], toks)


_ENTRY_PARSERS = {}


def _entry_parser(kind):
    """A parser for another start symbol.  PLY would write the tables of THAT grammar over nsl/parsetab.py (the cached
    tables of the module grammar, shared by every process): table writing is switched off while it is built."""
    if kind not in _ENTRY_PARSERS:
        import ply.yacc as Y
        from nsl.parser import NslParser, ParseEntryPoint
        orig = Y.yacc

        def no_write(*a, **k):
            k["write_tables"] = False
            k["debug"] = False
            return orig(*a, **k)

        Y.yacc = no_write
        try:
            _ENTRY_PARSERS[kind] = NslParser(ParseEntryPoint.Expression if kind == "expression" else ParseEntryPoint.Statement)
        finally:
            Y.yacc = orig
    return _ENTRY_PARSERS[kind]


def entry_check(ctx, case):
    from nsl.parser import NslParser, ParseEntryPoint
    from nsl.passes import UpdateLocations
    kind, text, offsets, toks = case
    ctx.count()
    ctx.label("entry-point:" + kind)
    if offsets[0] == 0:
        ctx.label("located-token-at-offset-0")
    starts = line_starts(text)
    try:
        with adapter.quiet():
            p = _entry_parser(kind)
            root = p.Parse(text)
            UpdateLocations.GetPass().Process(root)
    except BaseException as e:
        if isinstance(e, KeyboardInterrupt):
            raise
        ctx.discard("entry-point-parse-failed:" + type(e).__name__)
        return
    if root is None:
        ctx.discard("entry-point-parse-failed")
        return
    ctx.nontrivial(text)
    last = len(toks) - 1 - (1 if kind == "statement" else 0)   # the `;` is not part of the expression statement's parts
    want = (offsets[0], offsets[last] + len(toks[last]))
    loc = _known(root)
    got = None if loc is None else (loc.GetBegin(), loc.GetEnd())
    if got != want:
        ctx.fail("hull|entry-point-root", "the whole %s covers offsets %r = %r, its parts span %r = %r\n%r" % (
            kind, got, text[got[0]:got[1]] if got else None, want, text[want[0]:want[1]], text), case)
        return
    for node, parent in _collect(root):
        l = _known(node)
        if l is None or parent is None:
            continue
        pl = _known(parent)
        if pl is None or not (pl.GetBegin() <= l.GetBegin() and l.GetEnd() <= pl.GetEnd()):
            ctx.fail("hull|child-outside-parent|entry-point", "%s %s is not inside its parent %s %s\n%r" % (
                type(node).__name__, l, type(parent).__name__, pl, text), case)
            return
        if loc_to_range(str(l), starts) != (l.GetBegin(), l.GetEnd()):
            ctx.fail("hull|str-mismatch|entry-point", "%s prints as %s\n%r" % (type(node).__name__, l, text), case)
            return


def run(R):
    R.hyp("entry-point-texts", entry_text(), entry_check, examples=R.pick(60, 1500))
    R.require("located-token-at-offset-0")
    def texts():
        out = []
        for n in range(0, 11):
            out += ["".join(t) for t in itertools.product("x\n", repeat=n)]
        return out

    R.enum("srcmap-exhaustive", texts, mapping_text)
    R.hyp("srcmap-random", st.text(alphabet="ab \t\n\n", max_size=300) | st.text(alphabet="\n x", min_size=1, max_size=40),
          mapping_text, examples=R.pick(60, 1500))
    R.hyp("program-positions", program_case(), positions_case, examples=R.pick(120, 2500))
    R.hyp("redeclaration-diagnostic", redecl_case(), redecl_check, examples=R.pick(60, 1000))
    R.require("multi-line-range")
    for v in ("param", "global", "outer-local", "loop-header"):
        R.require("redecl:" + v)
