"""C18 - compilation is deterministic and independent of earlier compilations."""
import json
import os
import subprocess
import sys

from hypothesis import strategies as st

from .. import adapter, gen, genwasm, pristine
from .. import model as M

LEVEL = "exploration"
RULE = ("Metamorphic. A target source (generated scalar-core program with structs/globals, or one of a pool of "
        "feature programs: vectors, matrices, calls, overloads, arrays) with options drawn from {optimize} x {wasm} is "
        "compiled (1) alone in a fork of a process that has never compiled anything (reference), (2) in the worker "
        "process after a generated history of 1-6 other compilations - accepted and rejected ones (syntax errors, type "
        "errors, misplaced break, redeclarations), including programs that reuse the target's identifiers in other "
        "roles (a global named like the target's parameter/local, a struct of the same name with other fields; parameters "
        "without a name) - and "
        "(3) twice more with fresh Compiler objects; IR listing, global/function tables and wasm bytes (or the refusal "
        "class) must be identical. (4) batches of sources are compiled in child processes started with PYTHONHASHSEED in "
        "{0, 1, 4242, random} and compared; (5) an importer is compiled after 1-3 earlier versions of the imported file "
        "(other signatures, overloads, structs) were stored at the same path and loaded by earlier compilations, and "
        "compared with a never-compiled process reading the current file; thorough adds a scratch copy of the package without cached parser tables. "
        "Non-trivial = history of >= 2 compilations of which >= 1 was rejected and a target with >= 2 functions or >= 3 "
        "basic blocks (history part) / source compiled under >= 2 different hash seeds (seed part); distinct by "
        "(target, options, history).")
ASSUMPTIONS = [
    "only fresh Compiler() objects are used, one per compilation, as the property's anchors state",
    "the reference side is a fork of a server process that imports nsl and never compiles (vf/pristine.py)",
    "listing = LinearIR.InstructionPrinter output of every function + ordered names of globals and functions",
]

POOL = [
    "export function f ( float3 v , float s ) -> float3 { float3 r = v * s ; r . x = r . y + 1.0 ; return r . zyx ; }\n",
    "function g ( int a ) -> int { return a + 1 ; }\nfunction g ( float a ) -> float { return a * 2.0 ; }\n"
    "export function f ( int a , float b ) -> float { return g ( a ) + g ( b ) ; }\n",
    "struct S { float a ; int b ; }\nS gs ;\nexport function f ( int p ) -> int { S l ; l . b = p ; gs . b = l . b + 1 ; return gs . b ; }\n",
    "export function f ( float4x4 m , float4x4 n ) -> float4x4 { float4x4 r = m * n ; r [ 1 ] [ 2 ] = 5.0 ; return r + m ; }\n",
    "int [ 4 ] ga ;\nexport function f ( int i ) -> int { int [ 3 ] t ; t [ 1 ] = i ; ga [ 2 ] = t [ 1 ] * 2 ; return ga [ 2 ] + t [ 0 ] ; }\n",
    "export function f ( int n ) -> int { int s = 0 ; for ( int i = 0 ; i < n ; ++ i ) { if ( i == 3 ) continue ; s += i ; "
    "if ( s > 50 ) break ; } return s ; }\n",
    "function h ( int a , float b ) -> float { float c = a ; return c + b ; }\nexport function f ( int p , float q ) -> float "
    "{ float r = 0.0 ; int k = 3 ; do { k -- ; r = r + h ( k , q ) ; } while ( k > 0 ) return r ; }\n",
    "export function f ( float a , int b ) -> float { float x = a * b + 2 ; int y = b / 2 ; return x - y ; }\n",
    "export function f ( int2 a , int2 b ) -> int2 { return a + b ; }\nexport function g ( float2 a ) -> float { return a . x ; }\n",
    # a caller defined BEFORE the several functions it calls
    "export function f ( int a ) -> int { return h1 ( a ) + h2 ( a ) * h3 ( a ) - h4 ( a ) ; }\nfunction h1 ( int x ) -> int { return x + 1 ; }\n"
    "function h2 ( int x ) -> int { return h4 ( x ) + 2 ; }\nfunction h3 ( int x ) -> int { return x * 3 ; }\nfunction h4 ( int x ) -> int { return x - 4 ; }\n",
    "export function f ( float a ) -> float { return zed ( a ) + alpha ( a ) + mid ( a ) ; }\nfunction mid ( float x ) -> float { return alpha ( x ) ; }\n"
    "function alpha ( float x ) -> float { return x ; }\nfunction zed ( float x ) -> float { return mid ( x ) * 2.0 ; }\n",
    # non-exported functions taking / returning struct types
    "struct S { float a ; int b ; }\nfunction h ( S s ) -> float { return s . a ; }\nfunction h ( S s , int k ) -> float { return s . a + k ; }\n"
    "export function f ( float x ) -> float { S l ; l . a = x ; l . b = 2 ; return h ( l ) + h ( l , 3 ) ; }\n",
    # parameters without a name
    "function h ( float v , int ) -> float { return v ; }\nexport function f ( float a , int ) -> float { return h ( a , 2 ) ; }\n",
    "export function f ( int , float , int c ) -> int { return c + 1 ; }\nfunction g ( float2 ) -> int { return 3 ; }\n",
]
BAD = [
    "export function f ( int a ) -> int { return a + ; }\n",
    "export function f ( int a ) -> int { break ; return a ; }\n",
    "export function f ( int a ) -> int { int a = 2 ; return a ; }\n",
    "export function f ( int a ) -> int { return b ; }\n",
    "export function f ( float3 a , float2 b ) -> float3 { return a + b ; }\n",
    "export function f ( int a ) -> int { return g ( a ) ; }\n",
    "struct S { int a ; }\nexport function f ( int a ) -> int { S s ; return s . zz ; }\n",
    "export function f ( int a ) -> int { int [ 2 ] t ; return t [ 5 ] ; }\n",
    "export function f ( int a ) -> int { continue ; }\n",
    "int g ;\nexport function f ( int g ) -> int { return g ; }\n",
]

KEYWORDS = {"export", "function", "return", "if", "else", "for", "while", "do", "break", "continue", "struct", "import",
            "int", "float", "uint", "void", "int2", "int3", "int4", "float2", "float3", "float4", "uint2", "uint3", "uint4",
            "float3x3", "float4x4", "matrix3x3", "matrix4x4"}


def clash_variant(src, mapping_seed):
    """Rename the identifiers of `src` so that its GLOBALS carry names the target uses for
    parameters / locals, and everything else gets out of the way."""
    toks = [t for t, _ in M.tokenize(src)]
    roles = ["p0", "v1", "p1", "i1", "n1", "v2", "a1", "s1"]
    out = []
    gl = {}
    for t in toks:
        if (t[0].isalpha() or t[0] == "_") and t not in KEYWORDS:
            if t.startswith("g") and t != "g":
                if t not in gl:
                    gl[t] = roles[(len(gl) + mapping_seed) % len(roles)]
                out.append(gl[t])
            elif t in ("f", "S0") or t.startswith("f") and t[1:].isdigit() or len(t) == 1 or t in ("x", "y", "z", "w"):
                out.append(t)
            else:
                out.append(t + "_h")
        else:
            out.append(t)
    return " ".join(out) + "\n"


@st.composite
def source(draw, allow_bad=True):
    k = draw(st.integers(0, 99))
    if k < 12:
        # inside the wasm backend's subset, so that emitted bytes (not only refusals) are compared
        return draw(genwasm.subset_case(n_inputs=0)).source()
    if k < 55:
        case = draw(gen.core_case(n_inputs=0))
        src = case.source()
        if draw(st.integers(0, 9)) < 3:
            src = clash_variant(src, draw(st.integers(0, 7)))
        return src
    if k < 80 or not allow_bad:
        return draw(st.sampled_from(POOL))
    return draw(st.sampled_from(BAD))


@st.composite
def history_case(draw):
    target = draw(source(allow_bad=False))
    opts = (draw(st.booleans()), draw(st.booleans()))
    style = st.sampled_from(["full", "minimal"])
    hist = [(draw(source()), draw(st.booleans()), draw(st.booleans()), draw(style)) for _ in range(draw(st.integers(1, 6)))]
    return (target, opts + (draw(style),), tuple(hist))


_SERVER = None


def server():
    global _SERVER
    if _SERVER is None:
        _SERVER = pristine.Pristine()
    return _SERVER


def _diff(a, b):
    for k in sorted(set(a) | set(b)):
        if a.get(k) != b.get(k):
            x, y = str(a.get(k)), str(b.get(k))
            i = next((i for i, (p, q) in enumerate(zip(x, y)) if p != q), min(len(x), len(y)))
            return "%s differs at char %d: ...%r vs ...%r" % (k, i, x[max(0, i - 60):i + 60], y[max(0, i - 60):i + 60])
    return "equal"


def _opts(t):
    """(optimize, wasm[, how the options are passed])"""
    return t[0], t[1], (t[2] if len(t) > 2 else "full")


def history_check(ctx, case):
    target, topts, hist = case
    opt, wasm, tstyle = _opts(topts)
    ctx.count()
    ref = server().compile_one(target, opt, wasm)
    rejected = 0
    ctx.label("target-options-passed:" + tstyle)
    for h in hist:
        src = h[0]
        o, w, hstyle = _opts(h[1:])
        c = adapter.compile_src(src, optimize=o, wasm=w, options_style=hstyle)
        if not c.ok:
            rejected += 1
        elif w:
            try:
                adapter.wasm_bytes(c.result)
            except Exception:
                pass
    c = adapter.compile_src(target, optimize=opt, wasm=wasm, options_style=tstyle)
    got = pristine.describe_compiled(c, wasm)
    big = ref.get("ok") and (len(ref["functions"]) >= 2 or ref["listing"].count("bb_") >= 3 + ref["listing"].count("label bb_"))
    if len(hist) >= 2 and rejected >= 1 and big:
        ctx.nontrivial((target, opt, wasm, hist))
    ctx.label("target-accepted" if ref.get("ok") else "target-rejected")
    ctx.label("opts:opt=%d,wasm=%d" % (opt, wasm))
    if rejected:
        ctx.label("history-with-rejected")
    if ctx.want_sample() and len(hist) >= 2 and rejected:
        ctx.sample({"target": target, "options": {"optimize": opt, "wasm": wasm},
                    "history": [h[0][:200] for h in hist]})
    if got != ref:
        ctx.fail("history|" + _which(ref, got),
                 "same source and options, different result after %d earlier compilations in the process: %s\ntarget:\n%s\nhistory:\n%s" % (
                     len(hist), _diff(ref, got), target, "\n---\n".join(h[0] for h in hist)), case)
        return
    for _ in range(2):
        c2 = adapter.compile_src(target, optimize=opt, wasm=wasm)
        got2 = pristine.describe_compiled(c2, wasm)
        if got2 != ref:
            ctx.fail("repeat|" + _which(ref, got2), "two fresh Compiler objects disagree: %s\n%s" % (_diff(ref, got2), target), case)
            return


# -- histories that involve imported modules: the file an import names is rewritten between compilations --------

@st.composite
def import_history(draw):
    def lib():
        t, r = draw(st.sampled_from(["int", "float"])), draw(st.sampled_from(["int", "float", "float"]))
        k = draw(st.integers(1, 9))
        s = "function weight ( %s k ) -> %s { return k * %d ; }\n" % (t, r, k)
        if draw(st.booleans()):
            s += "function weight ( %s k , int j ) -> float { return k + j ; }\n" % t
        if draw(st.booleans()):
            s = "struct P { %s u ; float w ; }\n" % t + s
        return s
    libs = tuple(lib() for _ in range(draw(st.integers(2, 4))))
    importer = ('import "lib" ;\nexport function main ( int a , float b ) -> float { float r = weight ( a ) + b ; '
                'return r + weight ( %s ) ; }\n' % draw(st.sampled_from(["a", "b", "2", "a , 3"])))
    return (libs, importer, draw(st.booleans()))


def import_history_check(ctx, case):
    import pickle
    import shutil
    import tempfile
    libs, importer, opt = case
    ctx.count()
    work = tempfile.mkdtemp(prefix="c18i_")
    old = os.getcwd()
    os.chdir(work)
    try:
        stored = 0
        got = None
        for lib in libs:
            c = adapter.compile_src(lib)
            if not c.ok:
                ctx.discard("library-variant-not-accepted")
                continue
            with open("lib.nslir", "wb") as fh:
                pickle.dump(c.ir, fh)
            stored += 1
            got = pristine.describe_compiled(adapter.compile_src(importer, optimize=opt), False)
        if stored < 2:
            ctx.discard("fewer-than-two-library-versions")
            return
        ref = server().compile_many([(importer, opt, False, work)])[0]
        ctx.label("import-history-compared")
        ctx.label("importer-accepted" if ref.get("ok") else "importer-rejected")
        ctx.nontrivial((libs, importer, opt))
        if got != ref:
            ctx.fail("import-history|" + _which(ref, got),
                     "an importer compiled after %d earlier versions of lib.nslir were loaded in this process differs from a fresh "
                     "process reading the current file: %s\n%s\n--- versions of lib, oldest first ---\n%s" % (
                         stored - 1, _diff(ref, got), importer, "\n---\n".join(libs)), case)
    finally:
        os.chdir(old)
        shutil.rmtree(work, ignore_errors=True)


def _which(a, b):
    if a.get("ok") != b.get("ok"):
        return "accept-vs-reject"
    for k in ("listing", "globals", "functions", "wasm", "why"):
        if a.get(k) != b.get(k):
            return k
    return "other"


# -- hash seeds / parser tables (child processes) -----------------------------------------------

CHILD = r"""
import sys, json
sys.path.insert(0, %(verif)r)
from vf import adapter, pristine
reqs = json.load(sys.stdin)
out = []
for src, o, w in reqs:
    c = adapter.compile_src(src, optimize=o, wasm=w)
    out.append(pristine.describe_compiled(c, w))
json.dump(out, sys.stdout)
"""


LIBS = {
    "la": "function scale ( float v ) -> float { return v * 2.0 ; }\n",
    "lb": "export function scale ( float v ) -> float { return v * 3.0 ; }\n",
    "lc": "function scale ( float v ) -> int { return 1 ; }\nfunction offs ( int k ) -> int { return k + 7 ; }\n",
    "ld": "function offs ( int k ) -> int { return k + 1 ; }\nfunction scale ( int k ) -> int { return k ; }\n",
    "le": "struct P { float u ; int w ; }\nfunction scale ( float2 v ) -> float { return v . x ; }\n",
}


def importer_sources():
    """programs importing two or three stored libraries whose functions partly clash (same name and parameter
    types): accepted or rejected, the outcome may not depend on the hash seed"""
    import itertools
    out = []
    for n in (2, 3):
        for combo in itertools.permutations(sorted(LIBS), n):
            if n == 3 and combo[0] > combo[1]:
                continue
            imports = "".join('import "%s" ;\n' % c for c in combo)
            for body in ("return scale ( x ) ;", "return scale ( a ) + offs ( a ) ;", "return offs ( a ) ;"):
                out.append(imports + "export function f ( float x , int a ) -> float { %s }\n" % body)
    return out


def run_child(reqs, hashseed, repo=None, cwd=None):
    here = os.path.dirname(os.path.dirname(os.path.dirname(os.path.abspath(__file__))))
    env = dict(os.environ)
    if hashseed is None:
        env.pop("PYTHONHASHSEED", None)
        env["PYTHONHASHSEED"] = "random"
    else:
        env["PYTHONHASHSEED"] = str(hashseed)
    if repo:
        env["NSL_REPO"] = repo
    p = subprocess.run([sys.executable, "-c", CHILD % {"verif": here}], input=json.dumps(reqs), capture_output=True,
                       text=True, env=env, cwd=cwd or here, timeout=1200)
    if p.returncode != 0:
        raise RuntimeError("child failed: " + p.stderr[-2000:])
    return json.loads(p.stdout)


def seeds_worker_factory(R, n_sources):
    def worker(k, ctx):
        from hypothesis import given, seed, settings, HealthCheck, Phase
        from ..runner import derive_seed
        srcs = []

        @seed(derive_seed(R.seed, "C18", "seeds", k))
        @settings(max_examples=n_sources, database=None, deadline=None, phases=[Phase.generate],
                  suppress_health_check=list(HealthCheck))
        @given(source(allow_bad=True), st.booleans(), st.booleans())
        def collect(s, o, w):
            srcs.append((s, o, w))

        collect()
        srcs.extend((s, o, w) for s in POOL for o in (False, True) for w in (True, False))
        # importers of stored libraries, compiled in a directory that holds the library files
        import pickle
        import shutil
        import tempfile
        libdir = tempfile.mkdtemp(prefix="c18_libs_")
        for nm, lsrc in LIBS.items():
            lc = adapter.compile_src(lsrc)
            if lc.ok:
                with open(os.path.join(libdir, nm + ".nslir"), "wb") as fh:
                    pickle.dump(lc.ir, fh)
        imps = importer_sources()
        srcs.extend((s, False, False) for s in imps[k % 4::4])
        ctx.label("seeds:importers-of-clashing-libraries")
        results = {}
        variants = [0, 1, 4242, None]
        try:
            for hs in variants:
                results[hs] = run_child(srcs, hs, cwd=libdir)
            if not R.quick and k == 0:
                tmp = tempfile.mkdtemp(prefix="c18_notab_")
                try:
                    shutil.copytree(os.path.join(adapter.REPO, "nsl"), os.path.join(tmp, "nsl"),
                                    ignore=shutil.ignore_patterns("parsetab.py", "parser.out", "__pycache__"))
                    results["no-parsetab"] = run_child(srcs, 0, repo=tmp, cwd=libdir)
                    variants = variants + ["no-parsetab"]
                    ctx.label("no-cached-parser-tables")
                finally:
                    shutil.rmtree(tmp, ignore_errors=True)
        finally:
            shutil.rmtree(libdir, ignore_errors=True)
        base = results[0]
        for i, req in enumerate(srcs):
            ctx.count()
            ctx.nontrivial(req)
            if req[2]:
                ctx.label("seeds:wasm-requested")
            if base[i].get("ok") and req[2] and not str(base[i].get("wasm", "write-refused")).startswith("write-refused"):
                ctx.label("seeds:wasm-bytes-compared")
            for hs in variants[1:]:
                if results[hs][i] != base[i]:
                    ctx.fail("hashseed|" + _which(base[i], results[hs][i]),
                             "PYTHONHASHSEED=0 vs %s: %s\noptions optimize=%s wasm=%s\n%s" % (
                                 hs, _diff(base[i], results[hs][i]), req[1], req[2], req[0]), req)
                    return
        if ctx.want_sample():
            ctx.sample({"sources_compared": len(srcs), "hash_seeds": [str(v) for v in variants]})
    return worker


def batch_worker_factory(R, n_cases):
    """Cheap, fork-free variant of the history relation: the worker compiles
    history + target for n cases; ONE fresh child process compiles just the
    targets (in reverse order, so the two sides never share a history)."""
    def worker(k, ctx):
        from hypothesis import given, seed, settings, HealthCheck, Phase
        from ..runner import derive_seed
        cases = []

        @seed(derive_seed(R.seed, "C18", "batch", k))
        @settings(max_examples=n_cases, database=None, deadline=None, phases=[Phase.generate],
                  suppress_health_check=list(HealthCheck))
        @given(history_case())
        def collect(c):
            cases.append(c)

        collect()
        mine = []
        for target, topts, hist in cases:
            opt, wasm, tstyle = _opts(topts)
            for h in hist:
                o, w, hstyle = _opts(h[1:])
                adapter.compile_src(h[0], optimize=o, wasm=w, options_style=hstyle)
            mine.append(pristine.describe_compiled(adapter.compile_src(target, optimize=opt, wasm=wasm, options_style=tstyle), wasm))
        reqs = [(t, topts[0], topts[1]) for t, topts, _ in cases]
        other = run_child(list(reversed(reqs)), 0)
        other.reverse()
        for case, a, b in zip(cases, mine, other):
            ctx.count()
            if len(case[2]) >= 2:
                ctx.nontrivial(case)
            if a != b:
                # confirm against a pristine compilation before reporting
                ref = server().compile_one(case[0], case[1][0], case[1][1])
                side = "after-history" if a != ref else "fresh-process-sequence"
                ctx.fail("history|" + _which(a, b), "same source and options give different results (%s side deviates from a "
                         "pristine compilation): %s\ntarget:\n%s\nhistory:\n%s" % (
                             side, _diff(a, b), case[0], "\n---\n".join(h[0] for h in case[2])), case)
                return
        ctx.label("batch-compared", len(cases))
    return worker


def run(R):
    R.hyp("history", history_case(), history_check, examples=R.pick(20, 300))
    R.hyp("import-history", import_history(), import_history_check, examples=R.pick(12, 200))
    R.require("import-history-compared")
    R.custom("history-batch", batch_worker_factory(R, R.pick(80, 1500)), nworkers=16)
    R.custom("hash-seeds", seeds_worker_factory(R, R.pick(60, 400)), nworkers=R.pick(4, 16))
    R.require("batch-compared")
    R.require("history-with-rejected")
    R.require("target-accepted")
    R.require("seeds:wasm-requested")
    R.require("seeds:wasm-bytes-compared")
    R.require("seeds:importers-of-clashing-libraries")
    R.require("target-options-passed:minimal")
