"""Hypothesis strategies that *construct* well-typed NSL programs (vf.model AST)
together with inputs.  Every random choice is a Hypothesis draw."""
from hypothesis import strategies as st

from . import model as M
from .model import INT, FLOAT

# --------------------------------------------------------------------------
# values

small_int = st.integers(-20, 20)
mid_int = st.integers(-1000, 1000)
edge_int = st.sampled_from([2147483647, -2147483648, 65535, 65536, -65536, 46340, 46341, -46341,
                            1 << 30, -(1 << 30), 127, 128, -128, -129])
int_value = st.one_of(small_int, small_int, small_int, mid_int, edge_int)
float_value = st.integers(-128, 128).map(lambda n: n / 8.0)


def value_of(ty, prog=None):
    """strategy for a host value of a model type"""
    k = ty[0]
    if k == "s":
        if ty[1] == "float":
            return float_value
        if ty[1] == "uint":
            return st.integers(0, 40)
        return int_value
    if k == "v":
        return st.lists(value_of(("s", ty[1])), min_size=ty[2], max_size=ty[2])
    if k == "m":
        return st.lists(st.lists(value_of(("s", ty[1])), min_size=ty[3], max_size=ty[3]),
                        min_size=ty[2], max_size=ty[2])
    if k == "a":
        dims = ty[2]
        inner = value_of(ty[1], prog) if len(dims) == 1 else value_of(("a", ty[1], dims[1:]), prog)
        return st.lists(inner, min_size=dims[0], max_size=dims[0])
    if k == "st":
        fields = prog.struct_fields(ty[1])
        return st.fixed_dictionaries({fn: value_of(ft, prog) for ft, fn in fields})
    raise ValueError(ty)


# --------------------------------------------------------------------------
# literals

def int_lit(draw, lo=-12, hi=12, allow_neg=True):
    v = draw(st.integers(lo, hi))
    if v < 0 and not allow_neg:
        v = -v
    style = draw(st.sampled_from(["dec", "dec", "dec", "hex", "oct"]))
    if v < 0 or style == "dec":
        return M.Lit(v, INT, str(v))
    if style == "hex":
        return M.Lit(v, INT, draw(st.sampled_from(["0x%x", "0X%X", "0x%X"])) % v)
    return M.Lit(v, INT, "0" + oct(v)[2:] if v else "0")


_FLOAT_SPELL = [(0.5, ".5"), (0.5, "0.5"), (1.5, "1.5"), (2.0, "2."), (2.0, "2.0"), (10.0, "1e1"),
                (2.5, "2.5f"), (0.25, "0.25"), (3.0, "3.0"), (1.0, "1.0"), (0.0, "0.0"),
                (4.0, "4.0f"), (0.125, "1.25e-1"), (8.0, "8."), (7.5, "7.5"), (100.0, "1e2")]


def float_lit(draw):
    v, s = draw(st.sampled_from(_FLOAT_SPELL))
    return M.Lit(v, FLOAT, s)


# --------------------------------------------------------------------------
# program generator


class Case:
    """A generated program with inputs.  `show()` is what replay files print."""

    def __init__(self, prog, entry, inputs, paren_mode="full", note=""):
        self.prog = prog
        self.entry = entry
        self.inputs = inputs  # list of (args dict, globals dict)
        self.paren_mode = paren_mode
        self.note = note

    def source(self):
        return M.to_source(self.prog, self.paren_mode)

    def show(self):
        out = [self.source()]
        for a, g in self.inputs:
            out.append("// invoke %s(%s) globals=%r" % (
                self.entry, ", ".join("%s=%r" % kv for kv in a.items()), g))
        if self.note:
            out.append("// " + self.note)
        return "\n".join(out)


class Scope:
    def __init__(self):
        self.vars = {}  # name -> ty


class G:
    """One program generation; holds the Hypothesis `draw`."""

    def __init__(self, draw, feat):
        self.draw = draw
        self.feat = feat
        self.scopes = []
        self.globals = {}
        self.structs = []
        self.funcs = []  # M.Func, earlier ones callable
        self.loop_depth = 0
        self.protected = set()
        self.bounded = {}  # name -> (lo, hi) inclusive, valid while protected
        self.budget = 0
        self.names_in_func = set()
        self.counter = 0
        self.ret_ty = INT
        self.nest = 0
        self.reuse = feat.get("reuse", 35)

    # -- helpers ---------------------------------------------------------
    def d(self, strat):
        return self.draw(strat)

    def chance(self, pct):
        return self.d(st.integers(0, 99)) < pct

    def pick(self, seq):
        return self.d(st.sampled_from(list(seq)))

    def visible(self):
        out = dict(self.globals)
        for sc in self.scopes:
            out.update(sc.vars)
        return out

    def fresh(self, prefix="v"):
        """A name not visible here.  Names of closed sibling scopes may be
        reused (legal: disjoint scopes)."""
        vis = self.visible()
        pool = [n for n in self.names_in_func if n not in vis and n.startswith(prefix)]
        if pool and self.chance(self.reuse):
            return self.pick(sorted(pool))
        while True:
            self.counter += 1
            n = "%s%d" % (prefix, self.counter)
            if n not in vis and n not in self.fnames():
                self.names_in_func.add(n)
                return n

    def fnames(self):
        return {f.name for f in self.funcs}

    def declare(self, name, ty):
        self.scopes[-1].vars[name] = ty

    def push(self):
        self.scopes.append(Scope())

    def pop(self):
        self.scopes.pop()

    # -- lvalues / leaves ---------------------------------------------------
    def scalar_places(self, ty, writable=False):
        """expressions of exactly scalar type `ty` that name storage"""
        out = []
        for n, t in self.visible().items():
            if writable and n in self.protected:
                continue
            if t == ty:
                out.append(("var", n, t))
            elif M.is_arr(t) and len(t[2]) == 1 and t[1] == ty:
                out.append(("arr", n, t))
            elif M.is_struct(t):
                for ft, fn in self.struct_fields(t[1]):
                    if ft == ty:
                        out.append(("field", n, t, fn))
        return out

    def struct_fields(self, name):
        for n, fields in self.structs:
            if n == name:
                return fields
        raise KeyError(name)

    def place_expr(self, pl):
        kind = pl[0]
        if kind == "var":
            return M.Var(pl[1], pl[2])
        if kind == "arr":
            t = pl[2]
            return M.Index(M.Var(pl[1], t), self.safe_index(t[2][0]), t[1])
        if kind == "field":
            t = pl[2]
            ft = [f for f in self.struct_fields(t[1]) if f[1] == pl[3]][0][0]
            return M.Member(M.Var(pl[1], t), pl[3], ft)
        raise ValueError(pl)

    def safe_index(self, size):
        r = self.d(st.integers(0, 99))
        if r < 55:
            return int_lit(self.draw, 0, size - 1)
        cands = [n for n, (lo, hi) in self.bounded.items()
                 if lo >= 0 and hi < size and n in self.visible()]
        if r < 90:
            if cands:
                return M.Var(self.pick(sorted(cands)), INT)
            return int_lit(self.draw, 0, size - 1)
        if r < 95:
            e = self.expr(INT, 1)
            # a *literal* index is checked statically (C13): keep it in range;
            # any other expression is a dynamic index (out of range = discarded)
            if not isinstance(e, M.Lit):
                return e
        return int_lit(self.draw, 0, size - 1)

    # -- expressions --------------------------------------------------------
    def leaf(self, ty):
        places = self.scalar_places(ty)
        r = self.d(st.integers(0, 99))
        if places and r < 70:
            return self.place_expr(self.pick(places))
        if ty == INT:
            if r >= 94:
                # large literals: 32-bit edges and integers a 32-bit float cannot represent
                v = self.d(st.sampled_from([46340, 65536, 100000, 1 << 20, 2147483647, 16777217, 33554433, 123456789,
                                            16777216, 1000000007]))
                return M.Lit(v, INT, str(v))
            return int_lit(self.draw)
        return float_lit(self.draw)

    def nonzero_lit(self, ty):
        if ty == INT:
            v = self.d(st.sampled_from([1, 2, 3, 4, 5, 7, 8, 10, -1, -2, -3]))
            return M.Lit(v, INT, str(v))
        v, s = self.d(st.sampled_from([x for x in _FLOAT_SPELL if x[0] != 0.0]))
        return M.Lit(v, FLOAT, s)

    def expr(self, ty, depth):
        """expression whose static type is exactly `ty` (INT or FLOAT)"""
        if depth <= 0 or self.chance(25):
            return self.leaf(ty)
        r = self.d(st.integers(0, 99))
        if self.feat.get("calls") and r < 18:
            c = self.call_expr(ty, depth)
            if c is not None:
                return c
        if ty == INT:
            if r < 55:
                op = self.pick(["+", "-", "*", "+", "-", "*", "/", "/", "%"])
                l = self.expr(INT, depth - 1)
                if op == "%" and self.chance(70):
                    l = int_lit(self.draw, 0, 40)
                if op == "/":
                    rr = self.nonzero_lit(INT) if self.chance(65) else self.expr(INT, depth - 1)
                elif op == "%":
                    v = self.d(st.integers(1, 9))
                    rr = M.Lit(v, INT, str(v)) if self.chance(80) else self.expr(INT, depth - 1)
                else:
                    rr = self.expr(INT, depth - 1)
                return self.mk_bin(op, l, rr)
            if r < 85:
                op = self.pick(M.CMP)
                lt = self.pick([INT, INT, FLOAT])
                rt = self.pick([INT, INT, FLOAT]) if lt == INT else self.pick([INT, FLOAT])
                return self.mk_bin(op, self.expr(lt, depth - 1), self.expr(rt, depth - 1))
            op = self.pick(M.LOGIC)
            return self.mk_bin(op, self.expr(INT, depth - 1), self.expr(INT, depth - 1))
        # FLOAT
        if r < 88:
            op = self.pick(["+", "-", "*", "/"])
            shape = self.pick(["ff", "fi", "if", "ff"])
            lt = FLOAT if shape[0] == "f" else INT
            rt = FLOAT if shape[1] == "f" else INT
            l = self.expr(lt, depth - 1)
            if op == "/" and self.chance(65):
                rr = self.nonzero_lit(rt)
            else:
                rr = self.expr(rt, depth - 1)
            return self.mk_bin(op, l, rr)
        op = self.pick(M.LOGIC)
        shape = self.pick(["ff", "fi", "if"])
        lt = FLOAT if shape[0] == "f" else INT
        rt = FLOAT if shape[1] == "f" else INT
        return self.mk_bin(op, self.expr(lt, depth - 1), self.expr(rt, depth - 1))

    def mk_bin(self, op, l, r):
        paren = self.chance(8)
        return M.Bin(op, l, r, paren=paren)

    def rhs(self, target_ty, depth):
        """expression assignable to target_ty without a narrowing conversion"""
        if target_ty == FLOAT and self.chance(30):
            return self.expr(INT, depth)
        return self.expr(target_ty, depth)

    def cond(self, depth=2):
        r = self.d(st.integers(0, 99))
        if r < 75:
            op = self.pick(M.CMP)
            lt = self.pick([INT, INT, FLOAT])
            return self.mk_bin(op, self.expr(lt, depth - 1), self.expr(self.pick([INT, FLOAT]) if lt == FLOAT else INT, depth - 1))
        if r < 90:
            return self.expr(INT, depth)
        return self.mk_bin(self.pick(M.LOGIC), self.cond(depth - 1) if depth > 1 else self.expr(INT, 0),
                           self.expr(INT, max(depth - 1, 0)))

    # -- calls (enabled by feat['calls']) -------------------------------------
    def call_expr(self, ty, depth):
        cands = [(i, f) for i, f in enumerate(self.funcs)
                 if f.ret == ty and self.callable_here(i, f)]
        if not cands:
            return None
        i, f = self.pick(cands)
        args = []
        for pty, _ in f.params:
            args.append(self.arg_for(pty, depth - 1))
        return M.Call(f.name, args, f.ret, i)

    def callable_here(self, i, f):
        return True

    def arg_for(self, pty, depth):
        if pty == FLOAT and self.chance(25):
            return self.expr(INT, depth)
        return self.expr(pty, depth)

    # -- statements ---------------------------------------------------------
    def body_stmt(self, depth):
        """a loop body / branch: braced block, or an unbraced simple statement"""
        if self.chance(25):
            s = self.simple_stmt()
            if s is not None:
                return s
        return self.block(depth)

    def block(self, depth, n=None, tail=None):
        self.push()
        stmts = []
        n = n if n is not None else self.d(st.integers(1, 3))
        for k in range(n):
            if self.budget <= 0 and k > 0:
                break
            stmts.append(self.stmt(depth))
        if tail is not None:
            stmts.extend(tail())
        self.pop()
        return M.Block(stmts)

    def simple_stmt(self):
        """assignment / affix / flow; never a declaration"""
        self.budget -= 1
        r = self.d(st.integers(0, 99))
        if self.loop_depth > 0 and r < 18:
            return M.Break() if self.chance(50) else M.Continue()
        if r < 26:
            return M.Return(self.rhs(self.ret_ty, 2))
        if r < 45:
            vs = [p for p in self.scalar_places(INT, True) + self.scalar_places(FLOAT, True)
                  if p[0] == "var"]
            if vs:
                p = self.pick(vs)
                return M.ExprStmt(M.Affix(self.pick(["++", "--"]), M.Var(p[1], p[2]), self.chance(50)))
        return self.assign_stmt()

    def assign_stmt(self):
        ty = self.pick([INT, INT, FLOAT])
        places = self.scalar_places(ty, True)
        if not places:
            places = self.scalar_places(INT, True) + self.scalar_places(FLOAT, True)
            if not places:
                return None
        pl = self.pick(places)
        target = self.place_expr(pl)
        ty = target.ty
        op = self.pick(["=", "=", "=", "+=", "-=", "*=", "/="])
        if self.feat.get("chained_assign", True) and self.chance(7):
            # the value of an assignment is itself an assignment, plain or compound:  a = b += e ;  a -= b *= e ;
            inner = [p for p in self.scalar_places(ty, True) if p[0] == "var" and not (pl[0] == "var" and p[1] == pl[1])]
            if inner:
                p2 = self.pick(inner)
                iop = self.pick(["=", "+=", "-=", "*="])
                oop = self.pick(["=", "=", "+=", "-="])
                return M.ExprStmt(M.Assign(target, oop, M.Assign(M.Var(p2[1], p2[2]), iop, self.rhs(ty, 1))))
        if op == "=":
            if self.chance(12):
                vs = [p for p in self.scalar_places(ty, True) if p[0] == "var"]
                if vs:
                    p = self.pick(vs)
                    return M.ExprStmt(M.Assign(target, "=", M.Affix(self.pick(["++", "--"]),
                                                                    M.Var(p[1], p[2]), self.chance(50))))
            return M.ExprStmt(M.Assign(target, "=", self.rhs(ty, 3)))
        if op == "/=":
            val = self.nonzero_lit(ty if ty == INT or self.chance(60) else INT) if self.chance(70) else self.rhs(ty, 1)
        else:
            val = self.rhs(ty, 2)
        return M.ExprStmt(M.Assign(target, op, val))

    def decl_stmt(self):
        r = self.d(st.integers(0, 99))
        if r < 70 or not self.feat.get("storage", True):
            ty = self.pick([INT, INT, FLOAT])
            name = self.fresh("v")
            init = self.rhs(ty, 2) if self.chance(65) else None
            self.declare(name, ty)
            return M.Decl(ty, name, init)
        if r < 88 or not self.structs:
            ty = M.arr(self.pick([INT, INT, FLOAT]), (self.d(st.integers(1, 4)),))
            name = self.fresh("a")
            self.declare(name, ty)
            return M.Decl(ty, name)
        sname = self.pick([s[0] for s in self.structs])
        name = self.fresh("s")
        self.declare(name, M.struct(sname))
        return M.Decl(M.struct(sname), name)

    def stmt(self, depth):
        self.budget -= 1
        r = self.d(st.integers(0, 99))
        if depth <= 0:
            r = r % 50
        if r < 22:
            return self.decl_stmt()
        if r < 50:
            s = self.simple_stmt()
            if s is not None:
                return s
            return self.decl_stmt()
        if r < 68:
            c = self.cond()
            self.push()  # the if statement's own scope
            then = self.body_stmt(depth - 1)
            els = None
            if self.chance(45):
                els = self.body_stmt(depth - 1)
            self.pop()
            return M.If(c, then, els)
        if r < 80:
            return self.for_loop(depth)
        if r < 90:
            return self.while_loop(depth)
        if r < 97:
            return self.do_loop(depth)
        return self.block(depth - 1)

    # loops -------------------------------------------------------------
    def loop_body(self, depth, head=None, foot=None):
        self.loop_depth += 1
        self.push()
        stmts = list(head or [])
        n = self.d(st.integers(1, 3))
        guard_at = self.d(st.integers(0, n)) if self.chance(35) else -1

        def guard():
            # a guarded break/continue somewhere in the body
            flow = M.Break() if self.chance(45) else M.Continue()
            return M.If(self.cond(1), flow if self.chance(50) else M.Block([flow]), None)

        if self.feat.get("storage", True) and self.chance(22):
            stmts.extend(self.loop_local_aggregate())
        for k in range(n):
            if k == guard_at:
                stmts.append(guard())
            if self.budget <= 0 and (k > 0 or head or foot):
                break
            stmts.append(self.stmt(depth - 1))
        if guard_at >= len(stmts) - len(head or []) and guard_at >= 0:
            stmts.append(guard())
        stmts.extend(foot or [])
        self.pop()
        self.loop_depth -= 1
        return M.Block(stmts)

    def loop_local_aggregate(self):
        """an array / struct local declared in the loop body (so it must be fresh,
        i.e. zero, in every iteration) that is read before it is written"""
        out = []
        if self.structs and self.chance(40):
            sname = self.pick([s[0] for s in self.structs])
            name = self.fresh("s")
            ty = M.struct(sname)
            self.declare(name, ty)
            ft, fn = self.pick(self.struct_fields(sname))
            place = M.Member(M.Var(name, ty), fn, ft)
        else:
            ety = self.pick([INT, INT, FLOAT])
            size = self.d(st.integers(1, 3))
            ty = M.arr(ety, (size,))
            name = self.fresh("a")
            self.declare(name, ty)
            ft = ety
            k = self.d(st.integers(0, size - 1))
            place = M.Index(M.Var(name, ty), M.Lit(k, INT, str(k)), ety)
        out.append(M.Decl(ty, name))
        sinks = [p for p in self.scalar_places(ft, True) if p[0] == "var"]
        if ft == INT:
            sinks += []
        else:
            sinks = sinks or []
        if sinks and self.chance(70):
            sk = self.pick(sinks)
            tgt = M.Var(sk[1], sk[2])
            out.append(M.ExprStmt(M.Assign(tgt, "=", M.Bin("+", tgt, place))))
        one = M.Lit(1, INT, "1") if ft == INT else M.Lit(1.5, FLOAT, "1.5")
        import copy as _copy
        out.append(M.ExprStmt(M.Assign(_copy.deepcopy(place), "=", M.Bin("+", _copy.deepcopy(place), one))))
        return out

    def for_loop(self, depth):
        self.push()  # the for statement's scope
        r = self.d(st.integers(0, 99))
        if r < 70:
            i = self.fresh("i")
            k = self.d(st.integers(1, 5))
            up = self.chance(75)
            if up:
                init = M.Decl(INT, i, M.Lit(0, INT, "0"))
                op = self.pick(["<", "<", "<=", "!="])
                cond = M.Bin(op, M.Var(i, INT), M.Lit(k, INT, str(k)))
                hi = k if op == "<=" else k - 1
                lo = 0
            else:
                init = M.Decl(INT, i, M.Lit(k, INT, str(k)))
                op = self.pick([">", ">=", "!="])
                cond = M.Bin(op, M.Var(i, INT), M.Lit(0, INT, "0"))
                lo = 0 if op == ">=" else 1
                hi = k
            self.declare(i, INT)
            form = self.d(st.integers(0, 4))
            aop = "++" if up else "--"
            if form == 0:
                nxt = M.Affix(aop, M.Var(i, INT), True)
            elif form == 1:
                nxt = M.Affix(aop, M.Var(i, INT), False)
            elif form == 2:
                nxt = M.Assign(M.Var(i, INT), "+=" if up else "-=", M.Lit(1, INT, "1"))
            elif form == 3:
                nxt = M.Assign(M.Var(i, INT), "=", M.Bin("+" if up else "-", M.Var(i, INT), M.Lit(1, INT, "1")))
            else:
                nxt = M.Affix(aop, M.Var(i, INT), True)
            was = i in self.protected
            self.protected.add(i)
            self.bounded[i] = (lo, hi)
            body = self.loop_body(depth) if not self.chance(15) else self.unbraced_loop_body()
            if not was:
                self.protected.discard(i)
            self.bounded.pop(i, None)
            self.pop()
            return M.For(init, cond, nxt, body)
        # free-form: any part may be missing
        init = None
        if self.chance(60):
            nm = self.fresh("j")
            init = M.Decl(INT, nm, self.expr(INT, 1))
            self.declare(nm, INT)
        cond = self.cond(2) if self.chance(80) else None
        nxt = None
        if self.chance(75):
            s = self.assign_stmt()
            nxt = s.e if s is not None else None
        brk = M.If(self.cond(1), M.Break(), None)
        body = self.loop_body(depth, foot=[brk] if (cond is None or self.chance(50)) else None)
        self.pop()
        return M.For(init, cond, nxt, body)

    def unbraced_loop_body(self):
        self.loop_depth += 1
        s = self.simple_stmt()
        self.loop_depth -= 1
        if s is None or isinstance(s, (M.Break,)):
            return M.Block([s] if s is not None else [])
        return s

    def counter_update(self, n):
        form = self.d(st.integers(0, 3))
        v = M.Var(n, INT)
        if form == 0:
            return M.ExprStmt(M.Affix("--", v, True))
        if form == 1:
            return M.ExprStmt(M.Affix("--", v, False))
        if form == 2:
            return M.ExprStmt(M.Assign(v, "-=", M.Lit(1, INT, "1")))
        return M.ExprStmt(M.Assign(v, "=", M.Bin("-", v, M.Lit(1, INT, "1"))))

    def counted(self):
        """declare a protected down-counter in the current scope"""
        n = self.fresh("n")
        k = self.d(st.integers(1, 4))
        self.declare(n, INT)
        return n, M.Decl(INT, n, M.Lit(k, INT, str(k)))

    def while_loop(self, depth):
        if self.chance(70):
            self.push()
            n, decl = self.counted()
            self.protected.add(n)
            upd = self.counter_update(n)
            at_start = self.chance(70)
            cond = M.Bin(">", M.Var(n, INT), M.Lit(0, INT, "0"))
            if self.chance(30):
                cond = M.Bin("&&", cond, self.cond(1))
            self.push()
            body = self.loop_body(depth, head=[upd] if at_start else None, foot=None if at_start else [upd])
            self.pop()
            self.protected.discard(n)
            self.pop()
            return M.Block([decl, M.While(cond, body)])
        self.push()
        cond = self.cond(2)
        brk = M.If(self.cond(1), M.Break(), None)
        body = self.loop_body(depth, foot=[brk] if self.chance(60) else None)
        self.pop()
        return M.While(cond, body)

    def do_loop(self, depth):
        if self.chance(75):
            self.push()
            n, decl = self.counted()
            self.protected.add(n)
            upd = self.counter_update(n)
            at_start = self.chance(70)
            cond = M.Bin(">", M.Var(n, INT), M.Lit(0, INT, "0"))
            self.push()
            body = self.loop_body(depth, head=[upd] if at_start else None, foot=None if at_start else [upd])
            self.pop()
            self.protected.discard(n)
            self.pop()
            return M.Block([decl, M.Do(body, cond)])
        self.push()
        brk = M.If(self.cond(1), M.Break(), None)
        body = self.loop_body(depth, foot=[brk] if self.chance(60) else None)
        cond = self.cond(2)
        self.pop()
        return M.Do(body, cond)

    # functions -----------------------------------------------------------
    def function(self, name, exported, nparams=None, ret=None, size=None, depth=3):
        self.scopes = [Scope()]
        self.names_in_func = set()
        self.counter = 0
        self.protected = set()
        self.bounded = {}
        self.loop_depth = 0
        nparams = nparams if nparams is not None else self.d(st.integers(1, 4))
        params = []
        for k in range(nparams):
            ty = self.pick([INT, INT, FLOAT])
            nm = "p%d" % k
            params.append((ty, nm))
            self.declare(nm, ty)
        self.ret_ty = ret if ret is not None else self.pick([INT, INT, FLOAT])
        self.budget = size if size is not None else self.d(st.integers(2, 12))
        self.push()
        stmts = []
        while self.budget > 0:
            stmts.append(self.stmt(depth))
        stmts.append(M.Return(self.rhs(self.ret_ty, 3)))
        self.pop()
        return M.Func(name, params, self.ret_ty, M.Block(stmts), exported)


@st.composite
def core_case(draw, n_inputs=4, reuse=35):
    """C01: one exported function over the scalar core."""
    g = G(draw, {"storage": True, "reuse": reuse})
    # structs / globals
    if g.chance(45):
        nf = draw(st.integers(1, 3))
        fields = [(g.pick([INT, INT, FLOAT]), "f%d" % k) for k in range(nf)]
        g.structs.append(("S0", fields))
    globs = []
    for k in range(draw(st.integers(0, 3))):
        ty = g.pick([INT, INT, FLOAT])
        globs.append((ty, "g%d" % k))
    if g.chance(35):
        globs.append((M.arr(g.pick([INT, INT, FLOAT]), (draw(st.integers(1, 4)),)), "ga"))
    if g.structs and g.chance(60):
        globs.append((M.struct("S0"), "gs"))
    for ty, nm in globs:
        g.globals[nm] = ty
    f = g.function("f", True)
    prog = M.Program(g.structs, globs, [f])
    inputs = []
    for _ in range(n_inputs):
        args = {nm: draw(value_of(ty, prog)) for ty, nm in f.params}
        gl = {nm: draw(value_of(ty, prog)) for ty, nm in globs}
        inputs.append((args, gl))
    mode = draw(st.sampled_from(["full", "min", "min"]))
    return Case(prog, "f", inputs, mode)
