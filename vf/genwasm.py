"""Programs for the WebAssembly properties (C06, C07): straight-line scalar
functions inside the backend's subset, and near-misses around it."""
from hypothesis import strategies as st

from . import gen
from . import model as M
from .model import INT, FLOAT, UINT

I32_EDGE = [0, 1, -1, 2, 7, -8, 63, 64, -64, -65, 127, 128, 255, 256, 8191, 8192, 65535, 65536, 1 << 20, (1 << 27) - 1,
            1 << 27, 46340, -46340, 2147483647, -2147483648, -2147483647]


class WasmCase(gen.Case):
    def __init__(self, prog, entries, inputs, kind):
        super().__init__(prog, entries[0], inputs[entries[0]], "full", kind)
        self.entries = entries
        self.all_inputs = inputs
        self.kind = kind

    def show(self):
        out = [self.source()]
        for e in self.entries:
            for a, g in self.all_inputs[e]:
                out.append("// invoke %s(%r)" % (e, a))
        out.append("// kind=" + self.kind)
        return "\n".join(out)


def _val(draw, ty):
    if ty == FLOAT:
        if draw(st.integers(0, 11)) == 0:
            # every f32 value is an argument value: NaN, the infinities, negative zero
            return draw(st.sampled_from([float("nan"), float("inf"), float("-inf"), -0.0]))
        return draw(st.integers(-64, 64)) / 8.0
    if ty == UINT:
        return draw(st.one_of(st.integers(0, 40), st.sampled_from([0, 1, 65535, 65536, 2147483647, 2147483648, 3000000000,
                                                                         4294967295, 4294967294])))
    return draw(st.one_of(st.integers(-20, 20), st.integers(-20, 20), st.sampled_from(I32_EDGE)))


@st.composite
def subset_case(draw, n_inputs=4):
    """in-subset: params int/uint/float, straight-line + - * / == < >, int constants, return"""
    nf = draw(st.integers(1, 3))
    funcs, inputs, entries = [], {}, []
    for k in range(nf):
        comp = draw(st.sampled_from([INT, INT, FLOAT, UINT]))
        np_ = draw(st.integers(1, 4))
        params = [(comp, "p%d" % i) for i in range(np_)]
        if draw(st.integers(0, 9)) < 3:
            # a second family of parameters of the other kind, used only in their own sub-expressions
            other = FLOAT if comp != FLOAT else INT
            params.append((other, "q0"))
        names = {t: [n for tt, n in params if tt == t] for t in {p[0] for p in params}}

        def expr(ty, depth):
            r = draw(st.integers(0, 99))
            if depth <= 0 or r < 30:
                if ty == INT and r % 3 == 0:
                    v = draw(st.one_of(st.integers(0, 9), st.sampled_from([64, 127, 128, 8192, 65536, 100000, 2147483647])))
                    return M.Lit(v, INT, str(v))
                return M.Var(draw(st.sampled_from(names[ty])), ty)
            op = draw(st.sampled_from(["+", "-", "*", "+", "-", "*", "/"]))
            l = expr(ty, depth - 1)
            rr = expr(ty, depth - 1)
            if isinstance(l, M.Lit) and ty != INT:
                l = M.Var(draw(st.sampled_from(names[ty])), ty)
            if isinstance(rr, M.Lit) and ty != INT:
                rr = M.Var(draw(st.sampled_from(names[ty])), ty)
            return M.Bin(op, l, rr, ty=ty)

        ret = comp
        # mostly small bodies, sometimes ones whose encoding crosses the one-byte size prefix (>= 128 bytes)
        body_e = expr(comp, draw(st.sampled_from([1, 2, 2, 3, 3, 5, 6])))
        if draw(st.integers(0, 9)) < 4:
            cty = draw(st.sampled_from(sorted(names)))
            body_e = M.Bin(draw(st.sampled_from(["==", "<", ">"])), expr(cty, 2), expr(cty, 1), ty=INT)
            ret = INT
            if draw(st.booleans()) and INT in names:
                # the int operand may come before or after the comparison (value types then run int, float, int)
                other = expr(INT, 1)
                pair = (body_e, other) if draw(st.booleans()) else (other, body_e)
                body_e = M.Bin(draw(st.sampled_from(["+", "*", "-"])), pair[0], pair[1], ty=INT)
        # helpers that are not exported may sit between the exported functions (never called: calls are outside the subset)
        exported = (k == nf - 1 and not entries) or draw(st.integers(0, 9)) < 7
        fname = "w%d" % k
        if not exported and funcs and draw(st.integers(0, 9)) < 4:
            # a non-exported overload of an earlier function (same name, other parameter types)
            sig = tuple(t for t, _ in params)
            cands = [g.name for g in funcs if all(tuple(t for t, _ in h.params) != sig for h in funcs if h.name == g.name)]
            if cands:
                fname = draw(st.sampled_from(sorted(set(cands))))
        f = M.Func(fname, params, ret, M.Block([M.Return(body_e)]), exported)
        funcs.append(f)
        if exported:
            entries.append(f.name)
            inputs[f.name] = [({n: _val(draw, t) for t, n in params}, {}) for _ in range(n_inputs)]
    return WasmCase(M.Program([], [], funcs), entries, inputs, "subset")


@st.composite
def nearmiss_case(draw, n_inputs=3):
    """one construct outside the subset added to an in-subset function"""
    kind = draw(st.sampled_from(["local", "assign-param", "branch", "loop", "call", "mixed-cast", "mod", "le", "ge", "ne",
                                 "and", "or", "void", "float-const", "global", "affix", "two-returns", "unused-param-types",
                                 "return-int-as-float", "return-float-as-int", "huge-constant", "huge-constant-uint",
                                 "huge-constant-compare", "huge-constant-divide", "ne-float", "le-float", "ge-float", "mod-float",
                                 "cast-int-to-uint", "cast-uint-to-int", "mixed-int-uint", "cast-float-to-int", "cast-int-to-float",
                                 "discarded-expression", "discarded-expression-void", "discarded-parameter-void"]))
    a, b = M.Var("a", INT), M.Var("b", INT)
    x = M.Var("x", FLOAT)
    params = [(INT, "a"), (INT, "b"), (FLOAT, "x")]
    one = M.Lit(1, INT, "1")
    ret = INT
    globs = []
    funcs = []
    if kind == "local":
        body = [M.Decl(INT, "t", M.Bin("+", a, b, ty=INT)), M.Return(M.Bin("*", M.Var("t", INT), a, ty=INT))]
    elif kind == "assign-param":
        body = [M.ExprStmt(M.Assign(a, "=", M.Bin("+", a, one, ty=INT))), M.Return(M.Bin("*", a, b, ty=INT))]
    elif kind == "branch":
        body = [M.If(M.Bin("<", a, b, ty=INT), M.Block([M.Return(a)])), M.Return(b)]
    elif kind == "loop":
        body = [M.Decl(INT, "s", M.Lit(0, INT, "0")),
                M.For(M.Decl(INT, "i", M.Lit(0, INT, "0")), M.Bin("<", M.Var("i", INT), M.Lit(3, INT, "3"), ty=INT),
                      M.Affix("++", M.Var("i", INT), True), M.Block([M.ExprStmt(M.Assign(M.Var("s", INT), "+=", a))])),
                M.Return(M.Var("s", INT))]
    elif kind == "call":
        funcs.append(M.Func("h", [(INT, "p")], INT, M.Block([M.Return(M.Bin("+", M.Var("p", INT), one, ty=INT))]), False))
        body = [M.Return(M.Bin("+", M.Call("h", [a], INT, 0), b, ty=INT))]
    elif kind == "mixed-cast":
        body = [M.Return(M.Bin("+", x, a, ty=FLOAT))]
        ret = FLOAT
    elif kind in ("mod", "le", "ge", "ne", "and", "or"):
        op = {"mod": "%", "le": "<=", "ge": ">=", "ne": "!=", "and": "&&", "or": "||"}[kind]
        body = [M.Return(M.Bin(op, a, b, ty=INT))]
    elif kind == "void":
        ret = M.VOID
        body = [M.Return(None)] if draw(st.booleans()) else []
    elif kind == "float-const":
        ret = FLOAT
        body = [M.Return(M.Bin("*", x, M.Lit(2.5, FLOAT, "2.5"), ty=FLOAT))]
    elif kind == "return-int-as-float":
        ret = FLOAT
        body = [M.Return(M.Bin("+", a, b, ty=INT))]
    elif kind == "return-float-as-int":
        body = [M.Return(M.Bin("*", x, x, ty=FLOAT))]
    elif kind in ("huge-constant", "huge-constant-uint"):
        v = draw(st.sampled_from([2147483648, 4294967295, 4294967296, 1 << 40]))
        if kind == "huge-constant-uint":
            params = [(UINT, "a"), (UINT, "b"), (FLOAT, "x")]
            a = M.Var("a", UINT)
            ret = UINT
        body = [M.Return(M.Bin("+", a, M.Lit(v, INT, str(v)), ty=ret))]
    elif kind in ("huge-constant-compare", "huge-constant-divide"):
        v = draw(st.sampled_from([2147483648, 3000000000, 4294967295]))
        k = M.Lit(v, INT, str(v))
        op = draw(st.sampled_from(["<", ">", "=="])) if kind.endswith("compare") else "/"
        body = [M.Return(M.Bin(op, a, k, ty=INT) if draw(st.booleans()) else M.Bin(op, k, a, ty=INT))]
    elif kind in ("ne-float", "le-float", "ge-float", "mod-float"):
        op = {"ne-float": "!=", "le-float": "<=", "ge-float": ">=", "mod-float": "%"}[kind]
        body = [M.Return(M.Bin(op, x, M.Bin("*", x, x, ty=FLOAT), ty=INT))]
        if kind == "mod-float":
            ret = FLOAT
    elif kind in ("cast-int-to-uint", "cast-uint-to-int", "mixed-int-uint", "cast-float-to-int", "cast-int-to-float"):
        # conversions spelled as constructors, or implied by mixing int and uint
        params = [(INT, "a"), (UINT, "b"), (FLOAT, "x")]
        u = M.Var("b", UINT)
        two = M.Lit(2, INT, "2")
        if kind == "cast-int-to-uint":
            ret = UINT
            e = draw(st.sampled_from([M.Construct(UINT, [a]), M.Construct(UINT, [M.Bin("+", a, a, ty=INT)]),
                                      M.Bin("/", M.Construct(UINT, [a]), u, ty=UINT)]))
        elif kind == "cast-uint-to-int":
            e = draw(st.sampled_from([M.Construct(INT, [u]), M.Bin("/", M.Construct(INT, [u]), two, ty=INT),
                                      M.Bin("<", M.Construct(INT, [u]), a, ty=INT)]))
        elif kind == "mixed-int-uint":
            e = M.Bin(draw(st.sampled_from(["+", "/", "<", ">", "*"])), *draw(st.sampled_from([(a, u), (u, a)])), ty=INT)
        elif kind == "cast-float-to-int":
            e = M.Construct(INT, [x])
        else:
            ret = FLOAT
            e = M.Construct(FLOAT, [a])
        body = [M.Return(e)]
    elif kind in ("discarded-expression", "discarded-expression-void", "discarded-parameter-void"):
        # an expression statement whose value nobody reads
        e = a if kind == "discarded-parameter-void" else M.Bin(draw(st.sampled_from(["*", "+", "<"])), a, b, ty=INT)
        body = [M.ExprStmt(e)] * draw(st.integers(1, 2))
        if kind == "discarded-expression":
            body = body + [M.Return(M.Bin("-", a, b, ty=INT))]
        else:
            ret = M.VOID
            if draw(st.booleans()):
                body = body + [M.Return(None)]
    elif kind == "global":
        globs = [(INT, "g")]
        body = [M.Return(M.Bin("+", a, M.Var("g", INT), ty=INT))]
    elif kind == "affix":
        body = [M.ExprStmt(M.Affix("++", a, True)), M.Return(a)]
    elif kind == "two-returns":
        body = [M.Return(M.Bin("+", a, b, ty=INT)), M.Return(a)]
    else:
        body = [M.Return(M.Bin("-", a, b, ty=INT))]
    f = M.Func("w0", params, ret, M.Block(body), True)
    funcs.append(f)
    inputs = {"w0": [({"a": _val(draw, params[0][0]), "b": _val(draw, params[1][0]), "x": _val(draw, FLOAT)},
                      {n: _val(draw, t) for t, n in globs}) for _ in range(n_inputs)]}
    return WasmCase(M.Program([], globs, funcs), ["w0"], inputs, "near-miss:" + kind)
