"""Conforming engine (wasmtime, MVP feature set) + cross-check with wasmref."""
from . import wasmref

try:
    import wasmtime
    HAVE = True
except Exception:  # pragma: no cover
    wasmtime = None
    HAVE = False

_engine = None


def engine():
    global _engine
    if _engine is None:
        cfg = wasmtime.Config()
        for flag in ("wasm_relaxed_simd", "wasm_simd", "wasm_gc", "wasm_function_references",
                     "wasm_reference_types", "wasm_bulk_memory", "wasm_multi_value",
                     "wasm_threads", "wasm_tail_call", "wasm_multi_memory", "wasm_memory64",
                     "wasm_exceptions", "wasm_wide_arithmetic", "wasm_custom_page_sizes"):
            try:
                setattr(cfg, flag, False)
            except Exception:
                pass
        _engine = wasmtime.Engine(cfg)
    return _engine


class ValidatorDisagreement(Exception):
    pass


def validate_both(data):
    """-> (ok, message, decoded module).  Raises ValidatorDisagreement if our
    validator accepts what wasmtime rejects or vice versa (harness error)."""
    ok, stage, msg, m = wasmref.check_bytes(data)
    if HAVE:
        try:
            wasmtime.Module.validate(engine(), data)
            ok2, msg2 = True, ""
        except Exception as e:
            ok2, msg2 = False, str(e).strip().splitlines()[0][:200]
        if ok != ok2:
            raise ValidatorDisagreement(
                "wasmref says %s (%s %s), wasmtime says %s (%s); bytes=%s" % (
                    ok, stage, msg, ok2, msg2, bytes(data).hex()))
        if not ok:
            msg = "%s: %s / wasmtime: %s" % (stage, msg, msg2)
    elif not ok:
        msg = "%s: %s" % (stage, msg)
    return ok, msg, m


class Instance:
    def __init__(self, data, decoded=None):
        self.data = data
        self.decoded = decoded
        if HAVE:
            self.store = wasmtime.Store(engine())
            self.module = wasmtime.Module(engine(), data)
            self.inst = wasmtime.Instance(self.store, self.module, [])
            self.exports = self.inst.exports(self.store)
        elif decoded is None:
            self.decoded = wasmref.decode(data)

    def call(self, name, args):
        """-> ('ok', value) | ('trap', message) | ('missing', '')"""
        if HAVE:
            try:
                f = self.exports[name]
            except KeyError:
                return ("missing", "")
            if f is None:
                return ("missing", "")
            try:
                return ("ok", f(self.store, *args))
            except wasmtime.Trap as e:
                return ("trap", str(e).splitlines()[0])
            except wasmtime.WasmtimeError as e:
                return ("trap", str(e).splitlines()[0])
        try:
            return ("ok", wasmref.execute(self.decoded, name, args))
        except wasmref.Trap as e:
            return ("trap", str(e))
