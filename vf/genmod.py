"""Multi-module programs for C16: functions partitioned into modules forming an
import DAG (chains, diamonds, stars), imports placed first / between / after the
declarations."""
from hypothesis import strategies as st

from . import gen, genx
from . import model as M
from .model import INT, FLOAT

SHAPES = {
    # name -> list of (module index -> list of directly imported module indices); last module is the root
    "pair": {0: [], 1: [0]},
    "chain3": {0: [], 1: [0], 2: [1]},
    "diamond": {0: [], 1: [0], 2: [0], 3: [1, 2]},
    "star": {0: [], 1: [], 2: [0, 1]},
    "chain3+direct": {0: [], 1: [0], 2: [1, 0]},
    "chain4": {0: [], 1: [0], 2: [1], 3: [2]},
}


class GM(genx.GX):
    def __init__(self, draw, feat):
        super().__init__(draw, feat)
        self.allowed = set()

    def callable_here(self, i, f):
        return i in self.allowed


class ModCase:
    def __init__(self, shape, modules, prog, entry, inputs, placement, dup_import=(), opt=None):
        self.dup_import = set(dup_import)   # modules that spell one of their imports twice
        self.opt = list(opt) if opt is not None else [False] * len(modules)   # optimisation setting per module
        self.shape = shape
        self.modules = modules      # list of dict(name, imports=[names], funcs=[indices into prog.funcs], globals=[(ty, nm)])
        self.prog = prog            # the single-module program (all globals, all functions in dependency order)
        self.entry = entry
        self.inputs = inputs
        self.placement = placement  # per module: 'first' | 'between' | 'last'

    def module_source(self, k):
        m = self.modules[k]
        imports = ['import "%s" ;' % n for n in m["imports"]]
        if k in getattr(self, "dup_import", ()) and imports:
            imports = imports + imports[:1]
        decls = ["struct %s { %s }" % (sn, " ".join("%s %s ;" % (M.tname(ft), fn) for ft, fn in fields))
                 for sn, fields in m.get("structs", [])]
        decls += ["%s ;" % " ".join(M.type_tokens(ty) + [nm]) for ty, nm in m["globals"]]
        funcs = [M.to_source(self.prog.funcs[i], "full") for i in m["funcs"]]
        place = self.placement[k]
        if place == "first" or not imports:
            parts = imports + decls + funcs
        elif place == "last":
            parts = decls + funcs + imports
        else:
            body = decls + funcs
            cut = max(1, len(body) // 2)
            parts = body[:cut] + imports + body[cut:]
        return "\n".join(parts) + "\n"

    def single_source(self):
        return M.to_source(self.prog, "full")

    def show(self):
        out = ["// shape=%s placement=%r optimize=%r%s" % (self.shape, self.placement, getattr(self, "opt", None),
                                                (" import-spelled-twice-in=%r" % sorted(self.dup_import)) if getattr(self, "dup_import", None) else "")]
        for k, m in enumerate(self.modules):
            out.append("// ---- module %s ----" % m["name"])
            out.append(self.module_source(k))
        for a, g in self.inputs:
            out.append("// invoke %s(%r) globals=%r" % (self.entry, a, g))
        return "\n".join(out)


@st.composite
def modules_case(draw, n_inputs=2):
    shape = draw(st.sampled_from(sorted(SHAPES)))
    dag = SHAPES[shape]
    n = len(dag)
    shared_struct = draw(st.integers(0, 9)) < 4
    g = GM(draw, {"storage": shared_struct, "vec": True, "calls": True, "callpct": 40,
                  "vtypes": [M.vec("float", 2), M.vec("float", 3)]})
    struct_def = ("S0", [(INT, "sa"), (FLOAT, "sb")])
    ptypes = [INT, INT, FLOAT, FLOAT, M.vec("float", 2)]
    modules = []
    all_globals = []
    with_globals = draw(st.integers(0, 9)) < 6
    # module names: flat, or paths with directories in which several modules share the file name
    if draw(st.integers(0, 9)) < 3:
        pool = ["a/util", "b/util", "util", "c/d/util"]
        mnames = [pool[k] for k in range(n - 1)] + ["app/main"]
    else:
        mnames = ["m%d" % k for k in range(n)]
    for k in range(n):
        name = mnames[k]
        imports = [mnames[j] for j in dag[k]]
        mglobals = []
        if with_globals and draw(st.booleans()):
            mglobals.append((draw(st.sampled_from([INT, FLOAT])), "g%d" % k))
        if shared_struct and k != 0 and 0 in dag[k] and draw(st.integers(0, 9)) < 5:
            # a global whose type is the struct imported from m0
            mglobals.append((M.struct("S0"), "gs%d" % k))
        all_globals += mglobals
        # visible globals: only this module's own
        g.globals = {nm: ty for ty, nm in mglobals}
        # a struct type defined by module 0 is visible there and in the modules importing m0 directly
        g.structs = [struct_def] if shared_struct and (k == 0 or 0 in dag[k]) else []
        idxs = []
        own = []
        nfun = 1 if k == n - 1 else draw(st.integers(1, 2))
        for j in range(nfun):
            g.allowed = set(own)
            for dep in dag[k]:
                g.allowed |= set(modules[dep]["funcs"])
            root = (k == n - 1 and j == nfun - 1)
            fname = "f" if root else "h%d_%d" % (k, j)
            exported = root or draw(st.booleans())
            forced_sig = None
            imported_plain = [i for dep in dag[k] for i in modules[dep]["funcs"] if not g.funcs[i].exported
                              and sum(1 for x in g.funcs if x.name == g.funcs[i].name) == 1]
            if not root and imported_plain and draw(st.integers(0, 9)) < 4:
                # an overload set split over two modules: this module adds an overload to an imported function
                base = g.funcs[draw(st.sampled_from(imported_plain))]
                alt = tuple((FLOAT if t == INT else INT if t == FLOAT else M.vec("float", 3) if t == M.vec("float", 2)
                             else M.vec("float", 2)) for t, _ in base.params)
                fname, exported, forced_sig = base.name, False, alt
            if forced_sig is not None:
                f = genx._helper(g, fname, forced_sig)
            else:
                f = g.function(fname, exported, nparams=draw(st.integers(1, 3)), ptypes=ptypes,
                               rtypes=[INT, FLOAT, FLOAT, M.vec("float", 2)] if not root else [INT, FLOAT],
                               size=draw(st.integers(1, 5)), depth=2)
            if dag[k] and not _calls_any(f, g.allowed - set(own)):
                # make sure the module really uses what it imports: add a call to one imported function
                cands = sorted(g.allowed - set(own))
                ci = draw(st.sampled_from(cands))
                callee = g.funcs[ci]
                g.scopes = [gen.Scope()]
                for ty, nm in f.params:
                    g.declare(nm, ty)
                g.nest = 0
                args = [g.arg_for(pty, 1) for pty, _ in callee.params]
                call = M.Call(callee.name, args, callee.ret, ci)
                tmp = "c%d_%d" % (k, j)
                f.body.stmts.insert(0, M.Decl(callee.ret, tmp, call))
                if mglobals and mglobals[0][0] in (INT, FLOAT) and callee.ret in (INT, FLOAT) and (mglobals[0][0] == FLOAT or callee.ret == INT):
                    gv = M.Var(mglobals[0][1], mglobals[0][0])
                    f.body.stmts.insert(1, M.ExprStmt(M.Assign(gv, "=", M.Bin("+", gv, M.Var(tmp, callee.ret)))))
            g.funcs.append(f)
            idxs.append(len(g.funcs) - 1)
            own.append(len(g.funcs) - 1)
        modules.append({"name": name, "imports": imports, "funcs": idxs, "globals": mglobals,
                        "structs": [struct_def] if shared_struct and k == 0 else []})
    prog = M.Program([struct_def] if shared_struct else [], all_globals, g.funcs)
    entry = g.funcs[-1]
    inputs = []
    for _ in range(n_inputs):
        args = {nm: draw(gen.value_of(ty, prog)) for ty, nm in entry.params}
        gl = {nm: draw(gen.value_of(ty, prog)) for ty, nm in all_globals}
        inputs.append((args, gl))
    placement = [draw(st.sampled_from(["first", "first", "between", "last"])) for _ in range(n)]
    dup = [k for k in range(n) if dag[k] and draw(st.integers(0, 9)) < 2]
    opt = [draw(st.booleans()) for _ in range(n)] if draw(st.integers(0, 9)) < 4 else [False] * n
    return ModCase(shape, modules, prog, "f", inputs, placement, dup, opt)


def _calls_any(f, targets):
    found = []

    def expr(e):
        if e is None or isinstance(e, (M.Lit, M.Var)):
            return
        if isinstance(e, M.Call):
            if e.target in targets:
                found.append(e)
            for a in e.args:
                expr(a)
        elif isinstance(e, M.Bin):
            expr(e.l)
            expr(e.r)
        elif isinstance(e, M.Construct):
            for a in e.args:
                expr(a)
        elif isinstance(e, M.Index):
            expr(e.base)
            expr(e.idx)
        elif isinstance(e, M.Member):
            expr(e.base)
        elif isinstance(e, M.Assign):
            expr(e.target)
            expr(e.value)

    def stmt(s):
        if s is None:
            return
        if isinstance(s, M.Decl):
            expr(s.init)
        elif isinstance(s, M.ExprStmt):
            expr(s.e)
        elif isinstance(s, M.Block):
            for x in s.stmts:
                stmt(x)
        elif isinstance(s, M.If):
            expr(s.cond)
            stmt(s.then)
            stmt(s.els)
        elif isinstance(s, M.For):
            if s.init is not None:
                expr(s.init.init)
            expr(s.cond)
            expr(s.next)
            stmt(s.body)
        elif isinstance(s, (M.While, M.Do)):
            expr(s.cond)
            stmt(s.body)
        elif isinstance(s, M.Return):
            expr(s.e)

    stmt(f.body)
    return bool(found)
