"""Deterministic AST-level shrinker for generated program cases (gen.Case and
anything with .prog / .inputs).  A candidate is kept only if the check still
fails on it with the same signature, so soundness does not depend on the
edits preserving well-typedness."""
import copy

from . import model as M

_STMT = (M.Decl, M.ExprStmt, M.If, M.For, M.While, M.Do, M.Break, M.Continue, M.Return, M.Block)
_EXPR = (M.Lit, M.Var, M.Bin, M.Call, M.Index, M.Member, M.Construct, M.Assign, M.Affix)


def _sites(prog):
    """(container, key, node) for every statement / expression position"""
    out = []

    def expr(container, key, e):
        if e is None:
            return
        out.append((container, key, e))
        if isinstance(e, M.Bin):
            expr(e, "l", e.l)
            expr(e, "r", e.r)
        elif isinstance(e, (M.Call, M.Construct)):
            for i, a in enumerate(e.args):
                expr(e.args, i, a)
        elif isinstance(e, M.Index):
            expr(e, "base", e.base)
            expr(e, "idx", e.idx)
        elif isinstance(e, M.Member):
            expr(e, "base", e.base)
        elif isinstance(e, M.Assign):
            expr(e, "value", e.value)
            if isinstance(e.target, (M.Index, M.Member)):
                expr(e, "target", e.target)

    def stmt(container, key, s):
        if s is None:
            return
        out.append((container, key, s))
        if isinstance(s, M.Decl):
            expr(s, "init", s.init)
        elif isinstance(s, M.ExprStmt):
            expr(s, "e", s.e)
        elif isinstance(s, M.If):
            expr(s, "cond", s.cond)
            stmt(s, "then", s.then)
            stmt(s, "els", s.els)
        elif isinstance(s, M.For):
            if s.init is not None:
                expr(s.init, "init", s.init.init)
            expr(s, "cond", s.cond)
            expr(s, "next", s.next)
            stmt(s, "body", s.body)
        elif isinstance(s, (M.While, M.Do)):
            expr(s, "cond", s.cond)
            stmt(s, "body", s.body)
        elif isinstance(s, M.Return):
            expr(s, "e", s.e)
        elif isinstance(s, M.Block):
            for i, x in enumerate(s.stmts):
                stmt(s.stmts, i, x)

    for f in prog.funcs:
        for i, x in enumerate(f.body.stmts):
            stmt(f.body.stmts, i, x)
    return out


def _set(container, key, value):
    if isinstance(container, list):
        container[key] = value
    else:
        setattr(container, key, value)


def _variants(container, key, node):
    """list of functions applying one edit in place"""
    eds = []
    if isinstance(node, _STMT):
        if isinstance(container, list):
            eds.append(lambda: container.pop(key))
            if isinstance(node, M.Block):
                eds.append(lambda: container.__setitem__(slice(key, key + 1), node.stmts))
            if isinstance(node, M.If):
                eds.append(lambda: container.__setitem__(key, node.then))
                if node.els is not None:
                    eds.append(lambda: container.__setitem__(key, node.els))
                    eds.append(lambda: setattr(node, "els", None))
            if isinstance(node, (M.For, M.While, M.Do)):
                eds.append(lambda: container.__setitem__(key, node.body))
        else:
            if isinstance(node, M.Block) and len(node.stmts) == 1 and key in ("then", "els", "body"):
                pass
            if key == "els":
                eds.append(lambda: setattr(container, "els", None))
            if isinstance(node, M.If):
                eds.append(lambda: _set(container, key, node.then))
            if isinstance(node, (M.For, M.While)):
                eds.append(lambda: _set(container, key, node.body))
        if isinstance(node, M.For):
            if node.next is not None:
                pass
        return eds
    # expressions
    ty = getattr(node, "ty", None)
    if isinstance(node, M.Bin):
        for child in (node.l, node.r):
            if getattr(child, "ty", None) == ty:
                eds.append(lambda c=child: _set(container, key, c))
        if node.paren:
            eds.append(lambda: setattr(node, "paren", False))
    if isinstance(node, M.Assign) and node.op != "=" and not isinstance(container, list):
        pass
    if isinstance(node, (M.Bin, M.Call, M.Index, M.Member, M.Var, M.Construct)) and ty is not None and M.is_scalar(ty) \
            and key not in ("target", "base"):
        if ty == M.FLOAT:
            eds.append(lambda: _set(container, key, M.Lit(1.0, M.FLOAT, "1.0")))
            eds.append(lambda: _set(container, key, M.Lit(0.0, M.FLOAT, "0.0")))
        elif ty == M.INT:
            eds.append(lambda: _set(container, key, M.Lit(1, M.INT, "1")))
            eds.append(lambda: _set(container, key, M.Lit(0, M.INT, "0")))
    if isinstance(node, M.Lit) and node.ty == M.INT and node.value not in (0, 1):
        eds.append(lambda: _set(container, key, M.Lit(1, M.INT, "1")))
        if abs(node.value) > 3:
            eds.append(lambda: _set(container, key, M.Lit(2, M.INT, "2")))
    return eds


def _count_variants(prog):
    return [(i, len(_variants(*s))) for i, s in enumerate(_sites(prog))]


def shrink_case(case, fails, budget=300):
    """Greedy first-improvement descent; `fails(case) -> bool`."""
    used = [0]

    def attempt(c):
        if used[0] >= budget:
            return False
        used[0] += 1
        try:
            return bool(fails(c))
        except Exception:
            return False

    best = case
    if hasattr(best, "inputs") and len(best.inputs) > 1:
        for inp in list(best.inputs):
            c = copy.copy(best)
            c.inputs = [inp]
            if attempt(c):
                best = c
                break
    if not hasattr(best, "prog"):
        return best
    # drop functions that are not needed
    progress = True
    while progress and used[0] < budget:
        progress = False
        for fi in range(len(best.prog.funcs) - 1, -1, -1):
            if best.prog.funcs[fi].name == getattr(best, "entry", None):
                continue
            c = copy.deepcopy(best)
            removed = c.prog.funcs.pop(fi)
            _renumber_calls(c.prog, fi)
            if attempt(c):
                best = c
                progress = True
                break
    progress = True
    while progress and used[0] < budget:
        progress = False
        counts = _count_variants(best.prog)
        # statements first (big steps), then expressions
        order = sorted(range(len(counts)), key=lambda i: 0 if isinstance(_sites(best.prog)[i][2], _STMT) else 1)
        for i in order:
            for v in range(counts[i][1]):
                c = copy.deepcopy(best)
                sites = _sites(c.prog)
                if i >= len(sites):
                    break
                eds = _variants(*sites[i])
                if v >= len(eds):
                    break
                try:
                    eds[v]()
                except Exception:
                    continue
                if attempt(c):
                    best = c
                    progress = True
                    break
                if used[0] >= budget:
                    break
            if progress or used[0] >= budget:
                break
    if getattr(best, "paren_mode", "full") != "full":
        c = copy.deepcopy(best)
        c.paren_mode = "full"
        if attempt(c):
            best = c
    return best


def _renumber_calls(prog, removed):
    for _, _, node in _sites(prog):
        if isinstance(node, M.Call) and node.target is not None and node.target > removed:
            node.target -= 1
