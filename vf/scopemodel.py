"""Lexical-scope model of the C12 statement: which declarations are
redeclarations of a visible name, which uses are out of scope."""
from . import model as M


def analyse(prog):
    """-> list of ('redecl'|'undeclared', name) in source order"""
    errs = []
    globals_ = {}
    for ty, nm in prog.globals:
        if nm in globals_:
            errs.append(("redecl", nm))
        globals_[nm] = ty

    for f in prog.funcs:
        scopes = [dict(globals_), {}]
        for ty, nm in f.params:
            if any(nm in s for s in scopes):
                errs.append(("redecl", nm))
            scopes[-1][nm] = ty

        def visible(nm):
            return any(nm in s for s in scopes)

        def expr(e):
            if e is None:
                return
            if isinstance(e, M.Var):
                if not visible(e.name):
                    errs.append(("undeclared", e.name))
            elif isinstance(e, M.Bin):
                expr(e.l)
                expr(e.r)
            elif isinstance(e, (M.Call, M.Construct)):
                for a in e.args:
                    expr(a)
            elif isinstance(e, M.Index):
                expr(e.base)
                expr(e.idx)
            elif isinstance(e, M.Member):
                expr(e.base)
            elif isinstance(e, M.Assign):
                expr(e.value)
                expr(e.target)
            elif isinstance(e, M.Affix):
                expr(e.var)

        def decl(d):
            # the initialiser is evaluated with the new name already declared
            if visible(d.name):
                errs.append(("redecl", d.name))
            scopes[-1][d.name] = d.ty
            expr(d.init)

        def stmt(s):
            if s is None:
                return
            if isinstance(s, M.Decl):
                decl(s)
            elif isinstance(s, M.ExprStmt):
                expr(s.e)
            elif isinstance(s, M.Block):
                scopes.append({})
                for x in s.stmts:
                    stmt(x)
                scopes.pop()
            elif isinstance(s, M.If):
                scopes.append({})
                expr(s.cond)
                stmt(s.then)
                stmt(s.els)
                scopes.pop()
            elif isinstance(s, M.For):
                scopes.append({})
                if s.init is not None:
                    decl(s.init)
                expr(s.cond)
                expr(s.next)
                stmt(s.body)
                scopes.pop()
            elif isinstance(s, M.While):
                scopes.append({})
                expr(s.cond)
                stmt(s.body)
                scopes.pop()
            elif isinstance(s, M.Do):
                scopes.append({})
                stmt(s.body)
                expr(s.cond)
                scopes.pop()
            elif isinstance(s, M.Return):
                expr(s.e)

        stmt(f.body)
    return errs
