"""The only module that touches the code under test (the `nsl` package).

Everything is imported from NSL_REPO (default /repo) so the checks always run
against the current working tree.
"""
import contextlib
import io
import os
import sys
import traceback

REPO = os.environ.get("NSL_REPO", "/repo")
if REPO not in sys.path:
    sys.path.insert(0, REPO)

from nsl import LinearIR, VM  # noqa: E402
from nsl.Compiler import Compiler  # noqa: E402
import nsl  # noqa: E402

NSL_DIR = os.path.dirname(os.path.abspath(nsl.__file__))
assert os.path.abspath(NSL_DIR).startswith(os.path.abspath(REPO)), (
    "nsl imported from %s, not from %s" % (NSL_DIR, REPO)
)


class StepLimit(BaseException):
    pass


class _Steps:
    count = 0
    limit = float("inf")


_orig_opcode = LinearIR.Instruction.OpCode.fget


def _counting_opcode(self):
    _Steps.count += 1
    if _Steps.count > _Steps.limit:
        raise StepLimit()
    return _orig_opcode(self)


LinearIR.Instruction.OpCode = property(_counting_opcode)


@contextlib.contextmanager
def quiet():
    buf = io.StringIO()
    with contextlib.redirect_stdout(buf), contextlib.redirect_stderr(buf):
        yield buf


def warm_parser():
    """Build the parser once in the parent so PLY (re)writes nsl/parsetab.py at
    most once, before any worker is forked."""
    with quiet():
        try:
            Compiler()
        except BaseException:
            pass


def _nsl_frames(tb):
    frames = []
    for fs, lineno in traceback.walk_tb(tb):
        fn = fs.f_code.co_filename
        if os.path.abspath(fn).startswith(NSL_DIR):
            frames.append(fs)
    return frames


def exc_site(exc):
    """(module, function, detail) of the innermost nsl frame of an exception."""
    frames = _nsl_frames(exc.__traceback__)
    if not frames:
        return ("?", "?", "")
    f = frames[-1]
    mod = os.path.splitext(os.path.basename(f.f_code.co_filename))[0]
    if mod == "__init__":
        mod = os.path.basename(os.path.dirname(f.f_code.co_filename))
    func = f.f_code.co_name
    detail = ""
    # the VM interpreter loop: which opcode was executing
    for fr in reversed(frames):
        ins = fr.f_locals.get("instruction")
        if ins is not None and hasattr(ins, "OpCode"):
            try:
                detail = _orig_opcode(ins).name
            except Exception:
                detail = type(ins).__name__
            break
    return (mod, func, detail)


def exc_stage(exc):
    """front (parser / AST passes) | lower | irpass | wasm | other."""
    frames = _nsl_frames(exc.__traceback__)
    names = []
    for f in frames:
        p = f.f_code.co_filename.replace("\\", "/")
        names.append(os.path.splitext(os.path.basename(p))[0])
    s = set(names)
    if "GenerateWasm" in s or "WebAssembly" in s:
        return "wasm"
    if "LowerToIR" in s:
        return "lower"
    if s & {"OptimizeLoadAfterStore", "OptimizeConstantCasts",
            "RewriteFunctionArgAccess", "PrintLinearIR"}:
        return "irpass"
    if "VM" in s:
        return "vm"
    if "LinearIR" in s and not (s & {"ComputeTypes", "parser"}):
        return "ir"
    return "front"


def exc_sig(exc):
    mod, func, detail = exc_site(exc)
    msg = ""
    if type(exc).__name__ == "CompileException":
        msg = str(exc)[:40]
    return "%s:%s.%s%s%s" % (
        type(exc).__name__, mod, func,
        ("[" + detail + "]") if detail else "",
        ("{" + msg + "}") if msg else "")


class Compiled:
    __slots__ = ("ok", "result", "exc", "stage", "out", "kind")

    def __init__(self, ok, result=None, exc=None, stage=None, out="", kind=""):
        self.ok = ok
        self.result = result
        self.exc = exc
        self.stage = stage
        self.out = out
        self.kind = kind  # "", "none", "exit", "exception"

    @property
    def ir(self):
        return self.result.IRModule

    def why(self):
        if self.ok:
            return "accepted"
        if self.kind == "exception":
            return "exception:" + exc_sig(self.exc)
        return self.kind + ":" + self.out.strip().splitlines()[-1][:80] if self.out.strip() else self.kind


def compile_src(src, optimize=False, wasm=False, options_style="full"):
    """options_style: 'full' passes every option explicitly; 'minimal' passes only the options that are switched on
    (and no options argument at all when none is) - the two spellings mean the same"""
    opts = {"optimize": optimize, "wasm": wasm}
    if options_style == "minimal":
        opts = {k: v for k, v in opts.items() if v}
    with quiet() as buf:
        try:
            res = Compiler().Compile(src, opts) if (opts or options_style == "full") else Compiler().Compile(src)
        except SystemExit:
            return Compiled(False, kind="exit", stage="front", out=buf.getvalue())
        except RecursionError as e:
            return Compiled(False, exc=e, kind="exception", stage=exc_stage(e), out=buf.getvalue())
        except Exception as e:
            return Compiled(False, exc=e, kind="exception", stage=exc_stage(e), out=buf.getvalue())
    if res is None:
        out = buf.getvalue()
        stage = "lower" if "Failed to lower" in out else "front"
        return Compiled(False, kind="none", stage=stage, out=out)
    return Compiled(True, result=res, out=buf.getvalue())


def link(modules, loader=None):
    with quiet():
        if loader is None:
            linker = LinearIR.Linker()
        else:
            linker = LinearIR.Linker(loader=loader)
        for m in modules:
            linker.AddModule(m)
        return linker.Link()


def new_vm(program):
    return VM.VirtualMachine(program)


class Ran:
    __slots__ = ("ok", "value", "exc", "steps", "diverged", "timed_out")

    def __init__(self, ok, value=None, exc=None, steps=0, diverged=False, timed_out=False):
        self.ok = ok
        self.value = value
        self.exc = exc
        self.steps = steps
        self.diverged = diverged
        self.timed_out = timed_out  # wall-clock guard hit: inconclusive, never a verdict


class TimeLimit(BaseException):
    pass


INVOKE_SECONDS = 6.0  # guard against bignum blow-up (x *= x in a loop); expiry = inconclusive


def invoke(vm, fname, args, budget=None):
    import signal
    _Steps.count = 0
    _Steps.limit = budget if budget is not None else float("inf")

    def on_alarm(signum, frame):
        raise TimeLimit()

    prev_handler = signal.getsignal(signal.SIGALRM)
    prev_left = signal.alarm(0)
    signal.signal(signal.SIGALRM, on_alarm)
    signal.setitimer(signal.ITIMER_REAL, INVOKE_SECONDS)
    try:
        try:
            with quiet():
                v = vm.Invoke(fname, **args)
            return Ran(True, value=v, steps=_Steps.count)
        finally:
            signal.setitimer(signal.ITIMER_REAL, 0)
    except StepLimit:
        return Ran(False, steps=_Steps.count, diverged=True)
    except TimeLimit:
        return Ran(False, steps=_Steps.count, diverged=True, timed_out=True)
    except RecursionError as e:
        return Ran(False, exc=e, steps=_Steps.count)
    except MemoryError as e:
        return Ran(False, steps=_Steps.count, diverged=True, timed_out=True)
    except Exception as e:
        return Ran(False, exc=e, steps=_Steps.count)
    finally:
        _Steps.limit = float("inf")
        signal.signal(signal.SIGALRM, prev_handler if prev_handler is not None else signal.SIG_DFL)
        if prev_left:
            signal.alarm(max(1, prev_left))


def listing(irmodule):
    out = []

    def p(*a, end="\n"):
        out.append(" ".join(str(x) for x in a) + end)

    pr = LinearIR.InstructionPrinter(p)
    with quiet():
        for f in irmodule.Functions.values():
            pr.Print(f)
    return "".join(out)


def wasm_bytes(result):
    buf = io.BytesIO()
    with quiet():
        result.WasmModule.WriteTo(buf)
    return buf.getvalue()
