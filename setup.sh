#!/bin/bash
# MANIFEST.setup_cmd: verify (and if needed install offline) what the checks import.
here="$(cd "$(dirname "$0")" && pwd)"
cd "$here"
export PIP_NO_INDEX=1
need=""
/venv/bin/python -c "import hypothesis" 2>/dev/null || need="$need hypothesis"
/venv/bin/python -c "import wasmtime" 2>/dev/null || need="$need wasmtime"
/venv/bin/python -c "import ply" 2>/dev/null || need="$need ply"
if [ -n "$need" ]; then
  mkdir -p "$here/.deps"
  /venv/bin/pip install --no-index --find-links /opt/veriftools/wheels --target "$here/.deps" $need || true
fi
PYTHONPATH="$here/.deps:$here" /venv/bin/python - <<'PY'
import sys
ok = True
for m in ("hypothesis", "ply"):
    try:
        __import__(m)
    except Exception as e:
        ok = False
        print("setup: missing", m, e)
try:
    import wasmtime
except Exception as e:
    print("setup: wasmtime unavailable, C06 falls back to the wasmref interpreter:", e)
sys.exit(0 if ok else 1)
PY
